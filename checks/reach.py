#!/venv/bin/python
"""Reach measurement: which lines of the package do the simulated clients execute?

Runs N plans of a property in-process under sys.monitoring LINE events restricted to the
package's code objects and reports, per module, executable lines never reached.  A reporting
tool for extending the workload (DESIGN.md 9.6); it decides nothing.

  reach.py C20|C15 [N] [--tier quick|thorough]
"""
import os
import sys
import types

sys.path.insert(0, os.path.dirname(os.path.dirname(os.path.abspath(__file__))))
from sim import core  # noqa: E402

TOOL = 3


def main():
    prop = sys.argv[1]
    n = int(sys.argv[2]) if len(sys.argv) > 2 and sys.argv[2].isdigit() else 300
    tier = 'thorough' if 'thorough' in sys.argv else 'quick'
    core.reexec_pinned()
    core.import_pkg()
    from sim import budget
    if prop == 'C20':
        from sim import c20 as mod
    else:
        from sim import c15 as mod
    ad = mod.Adapter()
    ad.prepare(tier)
    mon = sys.monitoring
    mon.use_tool_id(TOOL, 'kneesim-reach')
    hit = set()

    def cb(code, line):
        hit.add((code.co_filename, line))
        return mon.DISABLE
    mon.register_callback(TOOL, mon.events.LINE, cb)
    codes = []
    for name in sorted(sys.modules):
        if name.startswith('kneeliverse.') and sys.modules[name] is not None:
            codes.extend(budget._codes_of(sys.modules[name]))
    codes = [c for c in codes if 'kneeliverse' in c.co_filename and c.co_name != '__str__'
             and not c.co_filename.endswith('metrics.py')]   # numba-compiled: the Python bodies never run
    for c in codes:
        mon.set_local_events(TOOL, c, mon.events.LINE)
    import numpy as np
    for i in range(n):
        plan = ad.make_plan(7, i, tier)
        try:
            if prop == 'C20':
                plan = dict(plan)
                plan['iso'] = {}
                for c in range(len(plan['clients'])):
                    mod.run_ref_client(plan, c)
            else:
                mod.execute(plan, {})
        except Exception as e:
            print('run', i, 'raised', type(e).__name__, str(e)[:100])
    total = 0
    missed_total = 0
    for c in codes:
        lines = sorted(set(l for (_, _, l) in c.co_lines() if l is not None and l > c.co_firstlineno))
        if not lines:
            continue
        missed = [l for l in lines if (c.co_filename, l) not in hit]
        total += len(lines)
        missed_total += len(missed)
        if missed:
            print('%-28s %-34s %3d/%3d missed: %s' % (os.path.basename(c.co_filename), c.co_name, len(missed), len(lines),
                                                     ' '.join(map(str, missed[:40]))))
    print('reached %d of %d executable lines (%.1f%%) in %d runs' % (total - missed_total, total, 100.0 * (total - missed_total) / max(total, 1), n))


if __name__ == '__main__':
    main()
