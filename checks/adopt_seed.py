#!/venv/bin/python
"""Confirm a candidate seeded change independently and adopt it under /verif/seeded/<id>/.

  adopt_seed.py <candidate dir with patch.diff demo.py meta.json> <id>

In a fresh scratch worktree of /repo (removed afterwards): the patch applies with git apply; the
pinned test suite still passes with it (same pass count as without); demo.py fails with it and
passes without it.  Only then are patch.diff, demo.py and meta.json (extended with what was
run) copied to /verif/seeded/<id>/.
"""
import json
import os
import re
import shutil
import subprocess
import sys

PY = '/venv/bin/python'
VERIF = os.path.dirname(os.path.dirname(os.path.abspath(__file__)))


def sh(cmd, cwd=None, env=None, timeout=1800):
    p = subprocess.run(cmd, cwd=cwd, env=env, capture_output=True, text=True, timeout=timeout)
    return p.returncode, (p.stdout + p.stderr)


def tests(wt):
    env = dict(os.environ, PYTHONPATH=os.path.join(wt, 'src'))
    rc, out = sh([PY, '-m', 'pytest', '-q', '-p', 'no:cacheprovider', '--timeout=900', 'test'], cwd=wt, env=env)
    m = re.search(r'(\d+) passed', out)
    f = re.search(r'(\d+) failed', out)
    return int(m.group(1)) if m else 0, int(f.group(1)) if f else 0


def main():
    cand, sid = sys.argv[1], sys.argv[2]
    wt = '/tmp/adopt-%s-%d' % (sid, os.getpid())
    rc, out = sh(['git', '-C', '/repo', 'worktree', 'add', '-q', wt, 'HEAD'])
    assert rc == 0, out
    ran = []
    try:
        base_pass, base_fail = tests(wt)
        ran.append('pytest test (unchanged): %d passed, %d failed' % (base_pass, base_fail))
        rc, out = sh([PY, os.path.join(cand, 'demo.py'), os.path.join(wt, 'src')], timeout=900)
        ran.append('demo.py on unchanged tree: exit %d' % rc)
        ok_without = rc == 0
        rc, out = sh(['git', '-C', wt, 'apply', os.path.join(os.path.abspath(cand), 'patch.diff')])
        if rc != 0:
            print('REJECT %s: patch does not apply: %s' % (sid, out[-300:]))
            return 1
        rc, _ = sh([PY, '-c', 'import sys; sys.path.insert(0, %r); import kneeliverse' % os.path.join(wt, 'src')])
        mut_pass, mut_fail = tests(wt)
        ran.append('pytest test (with change): %d passed, %d failed' % (mut_pass, mut_fail))
        rc2, out2 = sh([PY, os.path.join(cand, 'demo.py'), os.path.join(wt, 'src')], timeout=900)
        ran.append('demo.py with change: exit %d' % rc2)
        ok = (rc == 0 and mut_pass == base_pass and mut_fail == 0 and ok_without and rc2 != 0)
        print('%s %s: %s' % ('ADOPT' if ok else 'REJECT', sid, '; '.join(ran)))
        if not ok:
            print(out2[-500:])
            return 1
        dst = os.path.join(VERIF, 'seeded', sid)
        os.makedirs(dst, exist_ok=True)
        shutil.copy(os.path.join(cand, 'patch.diff'), dst)
        shutil.copy(os.path.join(cand, 'demo.py'), dst)
        meta = json.load(open(os.path.join(cand, 'meta.json')))
        meta['id'] = sid
        meta['confirmed_by'] = ran
        meta['demo_output_with_change'] = out2[-600:]
        json.dump(meta, open(os.path.join(dst, 'meta.json'), 'w'), indent=1)
        return 0
    finally:
        sh(['git', '-C', '/repo', 'worktree', 'remove', '--force', wt])
        shutil.rmtree(wt, ignore_errors=True)


if __name__ == '__main__':
    sys.exit(main())
