#!/venv/bin/python
"""kneesim command line.

  run.py setup
  run.py C15|C20 --tier quick|thorough        (VERIF_SEED = base seed; VERIF_TIER overrides --tier)
  run.py C15|C20 --replay FILE
  run.py C15|C20 --digest START COUNT          (event-log digests, used by the determinism self-test)
  run.py selftest [C15|C20]                    (determinism + sensitivity)

Exit status: 0 property held on everything explored (known findings are printed, not failed),
1 violation (line `VIOLATION property=<id> replay=<path>`), 2 harness error (never a verdict).
"""
import argparse
import json
import os
import sys
import time
import traceback

sys.path.insert(0, os.path.dirname(os.path.dirname(os.path.abspath(__file__))))
from sim import core  # noqa: E402


def get_adapter(prop):
    if prop == 'C15':
        from sim import c15
        return c15.Adapter()
    if prop == 'C20':
        from sim import c20
        return c20.Adapter()
    raise SystemExit('unknown property ' + prop)


BUDGET = {
    # property: tier: (runs, soft deadline seconds)
    'C15': {'quick': (24000, 50), 'thorough': (1500000, 780)},
    'C20': {'quick': (3000, 65), 'thorough': (400000, 1020)},
}


DET_RUNS = {'C15': {'quick': 400, 'thorough': 4000}, 'C20': {'quick': 60, 'thorough': 1500}}


def cmd_setup():
    import numpy
    import numba
    core.import_pkg()
    assert sys.version_info[:2] >= (3, 12), 'sys.monitoring needs Python >= 3.12'
    import multiprocessing
    ctx = multiprocessing.get_context('fork')
    p = ctx.Process(target=lambda: None)
    p.start()
    p.join(30)
    assert p.exitcode == 0
    os.makedirs(os.path.join(core.VERIF_DIR, 'evidence'), exist_ok=True)
    os.makedirs(os.path.join(core.VERIF_DIR, 'replays'), exist_ok=True)
    print('setup ok: python %s numpy %s numba %s, kneeliverse from %s' % (
        sys.version.split()[0], numpy.__version__, numba.__version__, core.REPO_SRC))
    return 0


def cmd_replay(prop, path, quiet):
    core.import_pkg()
    ad = get_adapter(prop)
    with open(path) as f:
        doc = json.load(f)
    if doc.get('kind') == 'hashseed':
        os.environ['VERIF_SEED'] = str(doc.get('base_seed', 0))
        hv = hashseed_probe(prop, doc.get('tier', 'quick'), doc['run_index'])
        print(json.dumps(hv))
        if hv['deterministic_per_seed'] and hv['differs_between_seeds']:
            print('REPRODUCED key=P2hash run_index=%d' % doc['run_index'])
            print('VIOLATION property=%s replay=%s' % (prop, path))
            return 1
        print('replay: results do not depend on the hash seed')
        return 0
    plan = doc['plan'] if 'plan' in doc else doc
    ad.prepare_replay() if hasattr(ad, 'prepare_replay') else None
    if str(doc.get('finding_key', '')).startswith(('CRASH:', 'HANG:')):
        got = crash_check(ad, plan, doc.get('tier', 'quick') if doc.get('tier') in ('quick', 'thorough') else 'quick')
        if got == doc['finding_key']:
            print('REPRODUCED key=%s (the isolated process died again)' % got)
            print('VIOLATION property=%s replay=%s' % (prop, path))
            return 1
        print('replay: the run completed without a fault signal')
        return 0
    # executed the way every run of a batch is: in a forked child of this (warmed-up, otherwise pristine) process,
    # inside a fresh private run directory
    r = ad.execute_isolated(plan)
    want = doc.get('finding_key')
    vs = r.get('violations') or []
    if not vs:
        print('replay: no violation (property held on this plan)')
        return 0
    hit = [x for x in vs if want is None or x['key'] == want]
    if not hit and doc.get('violation', {}).get('fn'):
        # a defect that reads uninitialised or out-of-bounds memory shows differently each time (P2 / P2dup /
        # P2iso): the same public call failing again counts as the same finding
        hit = [x for x in vs if x.get('fn') == doc['violation']['fn']]
    v = hit[0] if hit else vs[0]
    if not quiet:
        print(json.dumps(v, indent=1, default=str)[:4000])
    print('REPRODUCED key=%s step=%s digest=%s' % (v['key'], v.get('step'), r['digest'][:16]) if hit
          else 'DIFFERENT violation key=%s (file says %s)' % (v['key'], want))
    print('VIOLATION property=%s replay=%s' % (prop, path))
    return 1


def cmd_digest(prop, start, count, tier):
    core.import_pkg()
    ad = get_adapter(prop)
    ad.prepare(tier)
    ad.worker_init()
    out = []
    for i in range(start, start + count):
        plan = ad.make_plan(core.base_seed(), i, tier)
        r = ad.execute_isolated(plan)
        out.append(core.sha([core.sha(plan), r['digest'], sorted(x['key'] for x in r.get('violations') or [])])[:24])
    print('DIGESTS ' + json.dumps(out))
    return 0


def determinism_start(prop, tier, count):
    """Start the same `count` runs in two fresh interpreters with different PYTHONHASHSEED (they run
    while the main batch runs; joined by determinism_join)."""
    import subprocess
    procs = {}
    for hs in ('0', '4242'):
        env = dict(os.environ)
        env.pop('KNEESIM_PINNED', None)
        env['KNEESIM_HASHSEED'] = hs
        procs[hs] = subprocess.Popen([sys.executable, os.path.abspath(__file__), prop, '--digest', '0', str(count), '--tier', tier],
                                     env=env, stdout=subprocess.PIPE, stderr=subprocess.PIPE, text=True)
    return {'procs': procs, 'count': count}


def determinism_join(h):
    """Event-log digests of the two interpreters must be equal, run by run."""
    import subprocess
    res = {}
    for hs, p in h['procs'].items():
        try:
            so, se = p.communicate(timeout=3600)
        except subprocess.TimeoutExpired:
            p.kill()
            raise core.HarnessError('digest subprocess timed out')
        line = [l for l in so.splitlines() if l.startswith('DIGESTS ')]
        if p.returncode != 0 or not line:
            raise core.HarnessError('digest subprocess failed: ' + so[-500:] + se[-1500:])
        res[hs] = json.loads(line[0][8:])
    ok = res['0'] == res['4242']
    diff = [i for i, (a, b) in enumerate(zip(res['0'], res['4242'])) if a != b]
    return {'runs': h['count'], 'interpreters': 2, 'hashseeds': [0, 4242], 'identical': ok, 'first_diffs': diff[:5]}


LAST_REEXECUTION = None


def crash_check(ad, plan, tier='quick'):
    """Execute the plan in an isolated child; return 'CRASH:<SIGNAL>' if the child dies of a fault signal,
    'HANG:...' if it does not finish within the per-run wall-clock limit."""
    from sim import isolate, runner
    global LAST_REEXECUTION
    LAST_REEXECUTION = None
    try:
        LAST_REEXECUTION = isolate.with_rundir(ad.execute_full, (plan,), timeout=runner.RUN_TIMEOUT[tier])
    except isolate.ChildFailed as e:
        if e.signal in isolate.CRASH_SIGNALS:
            return 'CRASH:' + isolate.CRASH_SIGNALS[e.signal]
        if e.signal == isolate.HANG_SIGNAL:
            return 'HANG:no result within %ds' % runner.RUN_TIMEOUT[tier]
        raise
    return None


def hashseed_probe(prop, tier, i):
    """Digest of run i under PYTHONHASHSEED 0 and 4242, twice each, in fresh interpreters."""
    import subprocess
    procs = []
    for hs in ('0', '0', '4242', '4242'):
        env = dict(os.environ)
        env.pop('KNEESIM_PINNED', None)
        env['KNEESIM_HASHSEED'] = hs
        procs.append((hs, subprocess.Popen([sys.executable, os.path.abspath(__file__), prop, '--digest', str(i), '1', '--tier', tier],
                                           env=env, stdout=subprocess.PIPE, stderr=subprocess.PIPE, text=True)))
    out = {'0': [], '4242': []}
    for hs, p in procs:
        so, se = p.communicate(timeout=1800)
        line = [l for l in so.splitlines() if l.startswith('DIGESTS ')]
        out[hs].append(json.loads(line[0][8:])[0] if line else 'failed')
    return {'run_index': i, 'digests': out,
            'deterministic_per_seed': out['0'][0] == out['0'][1] and out['4242'][0] == out['4242'][1] and 'failed' not in out['0'] + out['4242'],
            'differs_between_seeds': out['0'][0] != out['4242'][0]}


def worker_count_selftest(ad, tier, base, count):
    """The same runs at two worker counts must give identical per-run event-log digests."""
    from sim import runner
    a = runner.run_batch(ad, tier, base, count, 3, 600)
    b = runner.run_batch(ad, tier, base, count, min(16, os.cpu_count() or 1), 600)
    return {'runs': count, 'worker_counts': [3, min(16, os.cpu_count() or 1)],
            'identical': a['batch_digest'] == b['batch_digest'] and a['n'] == b['n'] == count}


def cmd_check(prop, tier, nruns_override=None, workers=None, selftest=True):
    from sim import runner
    t0 = time.time()
    core.import_pkg()
    ad = get_adapter(prop)
    base = core.base_seed()
    nruns, deadline = BUDGET[prop][tier]
    if nruns_override:
        nruns = nruns_override
    workers = workers or min(16, os.cpu_count() or 1)
    kf = runner.load_known_findings()
    known = {k['key']: k for k in kf.get('known', []) if k.get('property') == prop}
    runner.KNOWN_KEYS = frozenset(known)
    dh = determinism_start(prop, tier, DET_RUNS[prop][tier]) if selftest else None
    ad.prepare(tier)
    try:
        agg = runner.run_batch(ad, tier, base, nruns, workers, deadline)
    except BaseException:
        # the batch itself failed (a worker process died, a timeout): say so in the evidence as well
        empty = {'n': 0, 'digests': set(), 'nontrivial': set(), 'stats': {}, 'violations': [], 'harness_errors': [{'i': -1, 'trace': traceback.format_exc()[-1500:]}],
                 'states': set(), 'diagnostics': [], 'samples': [], 'stopped_by_deadline': False, 'known': {}, 'run_digests': [], 'wall_s': time.time() - t0}
        try:
            write_evidence(prop, tier, base, ad, empty, None, [], {}, time.time() - t0, status='harness_error')
        except Exception:
            pass
        if dh is not None:
            for p_ in dh['procs'].values():
                p_.kill()
        raise
    det = None
    unknown_found = bool(agg['violations'])
    if selftest and unknown_found:
        # violations are reported first: a library defect (e.g. a result read from uninitialised memory) can also
        # make two interpreters disagree, and must not be reported as a failure of the harness
        try:
            det = determinism_join(dh)
            det['note'] = 'not used for the verdict: the batch found violations'
        except Exception as e:
            det = {'identical': None, 'note': 'self-test interpreters failed while the batch found violations: %s' % str(e)[:200]}
    elif selftest:
        det = determinism_join(dh)
        if tier == 'thorough':
            det['worker_counts'] = worker_count_selftest(ad, tier, base, 600)
            det['identical'] = det['identical'] and det['worker_counts']['identical']
        if not unknown_found and not det['identical'] and det.get('first_diffs'):
            # Same run, same code, two interpreters that differ only in PYTHONHASHSEED.  If each hash seed is
            # consistent with itself and they differ from each other, the run's results depend on the hash seed:
            # the library does not return identical results when called again in another process (clause b).
            i = det['first_diffs'][0]
            hv = hashseed_probe(prop, tier, i)
            det['hashseed_probe'] = hv
            if hv['deterministic_per_seed'] and hv['differs_between_seeds']:
                os.makedirs(os.path.join(core.OUT_DIR, 'replays'), exist_ok=True)
                path = os.path.join(core.OUT_DIR, 'replays', '%s-hashseed-%d.json' % (prop, core.run_seed(prop, base, i)))
                core.jdump({'property': prop, 'kind': 'hashseed', 'base_seed': base, 'run_index': i, 'tier': tier,
                            'finding_key': 'P2hash', 'digests': hv, 'plan': ad.make_plan(base, i, tier)}, path)
                print('violation detail: run index %d gives different results under PYTHONHASHSEED=0 and 4242 (each '
                      'reproducible): %r' % (i, hv))
                print('VIOLATION property=%s replay=%s' % (prop, path))
                write_evidence(prop, tier, base, ad, agg, det, [{'i': i, 'key': 'P2hash', 'path': path}], {}, time.time() - t0)
                return 1
        if not unknown_found and not det['identical']:
            print('HARNESS-ERROR determinism self-test failed: %r' % det)
            write_evidence(prop, tier, base, ad, agg, det, [], [], time.time() - t0, status='harness_error')
            return 2
    if agg['harness_errors'] and not unknown_found:
        for h in agg['harness_errors'][:3]:
            print('HARNESS-ERROR run %s\n%s' % (h['i'], h['trace']))
        write_evidence(prop, tier, base, ad, agg, det, [], [], time.time() - t0, status='harness_error')
        return 2
    # violations: minimise, write replay, confirm in a fresh interpreter; known findings were classified by key
    reported = []
    unreproducible = []
    slow_runs = []
    seen_keys = set()
    for v in agg['violations']:
        key = v['violation']['key']
        if key in seen_keys or len(reported) >= 3:
            continue
        seen_keys.add(key)
        if key.startswith(('CRASH:', 'HANG:')):
            crashed = crash_check(ad, v['plan'], tier)
            if crashed != key:
                if key.startswith('HANG:') and crashed is None:
                    # re-executed alone the run finished (without a fault): it was merely slow on a busy machine
                    slow_runs.append(v['i'])
                    for x in ((LAST_REEXECUTION or {}).get('violations') or []):
                        if x['key'] not in known:      # what the slow run found when it was given the time
                            agg['violations'].append({'i': v['i'], 'violation': x, 'plan': v['plan']})
                else:
                    unreproducible.append((key, v['i']))
                continue
            rs = core.run_seed(prop, base, v['i'])
            os.makedirs(os.path.join(core.OUT_DIR, 'replays'), exist_ok=True)
            path = os.path.join(core.OUT_DIR, 'replays', '%s-%d-crash.json' % (prop, rs))
            core.jdump({'property': prop, 'base_seed': base, 'run_index': v['i'], 'run_seed': rs, 'finding_key': key, 'tier': tier,
                        'violation': v['violation'], 'readable': ad.describe(v['plan']), 'plan': v['plan']}, path)
            reported.append({'i': v['i'], 'key': key, 'path': path, 'violation': v['violation']})
            continue
        small = ad.shrink(v['plan'], v['violation'], time.time() + 60)
        r = ad.execute_isolated(small)
        hit = [x for x in r['violations'] if x['key'] == key]
        if not hit:
            small = v['plan']
            for _ in range(3):
                r = ad.execute_isolated(small)
                hit = [x for x in r['violations'] if x['key'] == key]
                if hit:
                    break
                # a run that reads uninitialised or out-of-bounds memory fails differently each time: any
                # finding of the re-executed run that is not a known one will do
                other = [x for x in r['violations'] if x['key'] not in known]
                if other:
                    hit = other[:1]
                    key = hit[0]['key']
                    break
        if not hit:
            unreproducible.append((key, v['i']))
            continue
        rs = core.run_seed(prop, base, v['i'])
        os.makedirs(os.path.join(core.OUT_DIR, 'replays'), exist_ok=True)
        path = os.path.join(core.OUT_DIR, 'replays', '%s-%d-%s.json' % (prop, rs, core.sha(key)[:8]))
        core.jdump({'property': prop, 'base_seed': base, 'run_index': v['i'], 'run_seed': rs, 'finding_key': key,
                    'violation': hit[0], 'original_size': len(json.dumps(v['plan'])), 'minimised_size': len(json.dumps(small)),
                    'readable': ad.describe(small), 'plan': small}, path)
        ok, out = runner.replay_in_fresh_interpreter(prop, path)
        if not ok:
            unreproducible.append((key, v['i']))
            continue
        reported.append({'i': v['i'], 'key': key, 'path': path, 'violation': hit[0]})
    if unreproducible and not reported:
        # the batch saw violations, none of which could be reproduced exactly from its plan: no verdict
        print('HARNESS-ERROR %d violation(s) found by the batch did not reproduce when re-executed (first: %s of run %d)'
              % (len(unreproducible), unreproducible[0][0], unreproducible[0][1]))
        write_evidence(prop, tier, base, ad, agg, det, [], [], time.time() - t0, status='harness_error')
        return 2
    known_hits = agg['known']
    if hasattr(ad, 'witness_plans'):
        for wp in (ad.witness_plans() if not any(r_['key'].startswith(('HANG:', 'CRASH:')) for r_ in reported) else []):
            try:
                wr = ad.execute_isolated(wp)
            except Exception:
                continue      # the witness could not be executed (the tree hangs or crashes): nothing to add
            for x in wr['violations']:
                if x['key'] in known:
                    h = known_hits.setdefault(x['key'], [0, -1])
                    h[0] += 1
                elif x['key'].split('@witness:')[0] not in known and not any(r_['key'] == x['key'] for r_ in reported):
                    os.makedirs(os.path.join(core.OUT_DIR, 'replays'), exist_ok=True)
                    path = os.path.join(core.OUT_DIR, 'replays', '%s-witness-%s.json' % (prop, core.sha(x['key'])[:8]))
                    core.jdump({'property': prop, 'finding_key': x['key'], 'violation': x, 'readable': ad.describe(wp), 'plan': wp}, path)
                    reported.append({'i': -1, 'key': x['key'], 'path': path, 'violation': x})
    for key in sorted(known_hits):
        print('KNOWN-FINDING: property=%s %s (%d runs hit it; first run index %d)' % (
            prop, known[key]['what'], known_hits[key][0], known_hits[key][1]))
    for d in agg['diagnostics'][:3]:
        print('DIAGNOSTIC property=%s run=%s %s' % (prop, d['i'], json.dumps(d['diag'], default=str)[:300]))
    for r in reported:
        print('violation detail: run index %d key=%s %s' % (r['i'], r['key'], json.dumps(r['violation'], default=str)[:600]))
        print('VIOLATION property=%s replay=%s' % (prop, r['path']))
    agg['stats']['slow_runs_finished_on_reexecution'] = len(slow_runs)
    write_evidence(prop, tier, base, ad, agg, det, reported, {k: known_hits[k][0] for k in sorted(known_hits)}, time.time() - t0)
    print('%s %s: %d runs in %.1fs (%d workers), %d distinct non-trivial, %d violations, %d known findings' % (
        prop, tier, agg['n'], time.time() - t0, workers, len(agg['nontrivial']), len(reported), len(known_hits)))
    return 1 if reported else 0


def write_evidence(prop, tier, base, ad, agg, det, reported, known_hits, wall, status='ok'):
    stats = agg['stats']
    faults = {k[6:]: v for k, v in sorted(stats.items()) if k.startswith('fault.')}
    probes = {k[6:]: v for k, v in sorted(stats.items()) if k.startswith('probe.')}
    other = {k: v for k, v in sorted(stats.items()) if not k.startswith(('fault.', 'probe.', 'fn.', 'r.', 'poison.', 'layout.', 'budget_use.'))}
    n = max(agg['n'], 0)
    cov = {
        'evaluations': n,
        'distinct_nontrivial': len(agg['nontrivial']),
        'distinct_plans': len(agg['digests']),
        'rule': ad.RULE,
        'samples': agg['samples'][:3],
        'runs_per_hour': int(n / max(agg.get('wall_s', wall), 1e-9) * 3600),
        'seeds': {'base_seed': base, 'run_index_range': [0, n], 'derivation': 'sha256(property|base|index)[:8]'},
        'simulated_time': 'none - the package has no clock; the progress unit is scheduler steps',
        'fault_counts_fired': faults,
        'probe_counts': probes,
        'counters': other,
        'step_budget_use_per_call': {k[11:]: v for k, v in sorted(stats.items()) if k.startswith('budget_use.')},
        'distinct_states': {'count': len(agg['states']), 'measure': ad.STATE_MEASURE if hasattr(ad, 'STATE_MEASURE') else
                            'distinct sha256 of the sorted repr of cache keys observed after queries (opaque, counting only)'},
        'components': ad.COMPONENTS if hasattr(ad, 'COMPONENTS') else {
            'real': ['kneeliverse (from /repo/src working tree)', 'numpy', 'numba-compiled metrics', 'uts'],
            'simulated': ['caller sessions', 'scheduler', 'cache handle faults (restart/rollback/dup/handover)', 'reference model']},
        'stopped_by_deadline': agg['stopped_by_deadline'],
        'harness_errors': len(agg['harness_errors']),
        'determinism_selftest': det,
        'batch_digest': {'sha256_of_sorted_(run index, event-log digest)': agg.get('batch_digest'), 'runs': len(agg.get('run_digests', []))},
        'known_findings_hit': known_hits,
        'diagnostics': agg['diagnostics'][:5],
        'status': status,
    }
    if hasattr(ad, 'evidence_extra'):
        cov.update(ad.evidence_extra(agg))
    sens = os.path.join(core.VERIF_DIR, 'evidence', 'sensitivity-%s.json' % prop)
    if os.path.exists(sens):
        try:
            with open(sens) as f:
                sd = json.load(f)
            cov['sensitivity_last_selftest'] = {
                'note': 'not measured by this run: result of the last `run.py selftest %s` (textual mutants on a scratch copy)' % prop,
                'killed': sd.get('killed'), 'tried': sd.get('tried'), 'stale': sd.get('stale'),
                'survived': [m['id'] for m in sd.get('mutants', []) if m.get('status') not in ('killed', 'stale')]}
        except Exception:
            pass
    ev = {
        'property_id': prop, 'tier': tier, 'seed': base, 'level': 'exploration', 'coverage': cov,
        'assumptions': ad.ASSUMPTIONS if hasattr(ad, 'ASSUMPTIONS') else [
            'sampling, not enumeration: a clean batch is evidence, not proof',
            'the interval reference model is weak where relative metrics meet y ~ 0 (see ref.* counters)',
            'same machine, BLAS/numba pinned to one thread, PYTHONHASHSEED pinned (varied in the self-test)'],
        'wall_s': round(wall, 2), 'violations': len(reported),
    }
    os.makedirs(os.path.join(core.OUT_DIR, 'evidence'), exist_ok=True)
    core.jdump(ev, os.path.join(core.OUT_DIR, 'evidence', prop + '.json'))


def main():
    ap = argparse.ArgumentParser()
    ap.add_argument('cmd')
    ap.add_argument('sub', nargs='?')
    ap.add_argument('--tier', default=None)
    ap.add_argument('--replay')
    ap.add_argument('--digest', nargs=2, type=int)
    ap.add_argument('--runs', type=int)
    ap.add_argument('--workers', type=int)
    ap.add_argument('--quiet', action='store_true')
    ap.add_argument('--no-selftest', action='store_true')
    a = ap.parse_args()
    core.reexec_pinned()
    tier = a.tier or os.environ.get('VERIF_TIER') or 'quick'
    if tier not in ('quick', 'thorough'):
        tier = 'quick'
    try:
        if a.cmd == 'setup':
            return cmd_setup()
        if a.cmd == 'selftest':
            from sim import mutants
            return mutants.main(a.sub, tier)
        if a.replay:
            return cmd_replay(a.cmd, a.replay, a.quiet)
        if a.digest:
            return cmd_digest(a.cmd, a.digest[0], a.digest[1], tier)
        return cmd_check(a.cmd, tier, a.runs, a.workers, not a.no_selftest)
    except core.HarnessError as e:
        print('HARNESS-ERROR %s' % e)
        return 2
    except SystemExit:
        raise
    except BaseException:
        print('HARNESS-ERROR\n' + traceback.format_exc())
        return 2


if __name__ == '__main__':
    sys.exit(main())
