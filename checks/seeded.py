#!/venv/bin/python
"""Run the registered checks against the seeded changes under /verif/seeded/<id>/.

For each seeded change: copy /repo/src (+ traces link) to a scratch directory under /tmp, apply
patch.diff there, run the demonstration (must fail) and the property's quick check with
KNEESIM_SRC / KNEESIM_OUT pointing at the scratch copy (must exit 1 with a VIOLATION line), then
remove the scratch directory.  /repo and /verif are never modified.  Results are written to
/verif/seeded/RESULTS.json.

  seeded.py [id ...] [--runs N] [--tier quick|thorough]
"""
import json
import os
import shutil
import subprocess
import sys
import tempfile
import time

VERIF = os.path.dirname(os.path.dirname(os.path.abspath(__file__)))
PY = sys.executable


def run_one(sid, runs=None, tier='quick'):
    d = os.path.join(VERIF, 'seeded', sid)
    meta = json.load(open(os.path.join(d, 'meta.json')))
    prop = meta['property']
    scratch = tempfile.mkdtemp(prefix='kneesim-seeded-', dir='/tmp')
    res = {'id': sid, 'property': prop}
    try:
        shutil.copytree('/repo/src', os.path.join(scratch, 'src'), ignore=shutil.ignore_patterns('__pycache__', '*.egg-info'))
        os.symlink('/repo/traces', os.path.join(scratch, 'traces'))
        p = subprocess.run(['patch', '-p1', '-s', '-i', os.path.join(d, 'patch.diff')], cwd=scratch, capture_output=True, text=True)
        if p.returncode != 0:
            res['status'] = 'patch does not apply: ' + (p.stdout + p.stderr)[-300:]
            return res
        demo = os.path.join(d, 'demo.py')
        if os.path.exists(demo):
            q = subprocess.run([PY, demo, os.path.join(scratch, 'src')], capture_output=True, text=True, timeout=600)
            res['demo_exit_with_change'] = q.returncode
        env = dict(os.environ)
        env.pop('KNEESIM_PINNED', None)
        env['KNEESIM_SRC'] = os.path.join(scratch, 'src')
        env['KNEESIM_OUT'] = os.path.join(scratch, 'out')
        env['KNEESIM_FAIL_FAST'] = '1'      # same runs in the same order; the batch just stops at the first finding
        cmd = [PY, os.path.join(VERIF, 'checks', 'run.py'), prop, '--tier', tier, '--no-selftest']
        if runs:
            cmd += ['--runs', str(runs)]
        t0 = time.time()
        q = subprocess.run(cmd, env=env, capture_output=True, text=True, timeout=3600)
        res['check_exit'] = q.returncode
        res['wall_s'] = round(time.time() - t0, 1)
        res['caught'] = q.returncode == 1 and ('VIOLATION property=%s' % prop) in q.stdout
        res['lines'] = [l[:400] for l in q.stdout.splitlines() if l.startswith(('violation detail', 'HARNESS', 'VIOLATION'))][:4]
        if q.returncode == 2:
            res['tail'] = (q.stdout + q.stderr)[-1500:]
        return res
    finally:
        shutil.rmtree(scratch, ignore_errors=True)


def run_benign(bid, runs=None, tier='quick'):
    """A semantics-preserving change: both checks must stay silent (exit 0, no VIOLATION line)."""
    d = os.path.join(VERIF, 'benign', bid)
    scratch = tempfile.mkdtemp(prefix='kneesim-benign-', dir='/tmp')
    res = {'id': bid, 'checks': {}}
    try:
        shutil.copytree('/repo/src', os.path.join(scratch, 'src'), ignore=shutil.ignore_patterns('__pycache__', '*.egg-info'))
        os.symlink('/repo/traces', os.path.join(scratch, 'traces'))
        p = subprocess.run(['patch', '-p1', '-s', '-i', os.path.join(d, 'patch.diff')], cwd=scratch, capture_output=True, text=True)
        if p.returncode != 0:
            res['status'] = 'patch does not apply'
            return res
        for prop in ('C15', 'C20'):
            env = dict(os.environ)
            env.pop('KNEESIM_PINNED', None)
            env['KNEESIM_SRC'] = os.path.join(scratch, 'src')
            env['KNEESIM_OUT'] = os.path.join(scratch, 'out')
            cmd = [PY, os.path.join(VERIF, 'checks', 'run.py'), prop, '--tier', tier, '--no-selftest']
            if runs:
                cmd += ['--runs', str(runs)]
            q = subprocess.run(cmd, env=env, capture_output=True, text=True, timeout=3600)
            res['checks'][prop] = {'exit': q.returncode, 'silent': q.returncode == 0 and 'VIOLATION' not in q.stdout,
                                   'lines': [l[:500] for l in q.stdout.splitlines() if l.startswith(('violation detail', 'HARNESS', 'VIOLATION'))][:4],
                                   'summary': q.stdout.splitlines()[-1][:200] if q.stdout.strip() else ''}
        res['silent'] = all(c['silent'] for c in res['checks'].values())
        return res
    finally:
        shutil.rmtree(scratch, ignore_errors=True)


def main_benign():
    root = os.path.join(VERIF, 'benign')
    ids = [a for a in sys.argv[1:] if not a.startswith('--')] or sorted(x for x in os.listdir(root) if os.path.isdir(os.path.join(root, x)))
    out = []
    for bid in ids:
        r = run_benign(bid)
        print('%-8s %s  %s' % (bid, 'SILENT' if r.get('silent') else 'ALARM', json.dumps({k: v['lines'] for k, v in r['checks'].items() if v['lines']})[:600]))
        sys.stdout.flush()
        out.append(r)
    path = os.path.join(root, 'RESULTS.json')
    prev = {}
    if os.path.exists(path):
        prev = {r['id']: r for r in json.load(open(path))}
    for r in out:
        prev[r['id']] = r
    json.dump([prev[k] for k in sorted(prev, key=lambda x: int(x[1:]) if x[1:].isdigit() else 0)], open(path, 'w'), indent=1)
    return 0


def main():
    if '--benign' in sys.argv:
        sys.argv.remove('--benign')
        return main_benign()
    args = [a for a in sys.argv[1:] if not a.startswith('--')]
    runs = None
    tier = 'quick'
    if '--runs' in sys.argv:
        runs = int(sys.argv[sys.argv.index('--runs') + 1])
        args = [a for a in args if a != str(runs)]
    if '--tier' in sys.argv:
        tier = sys.argv[sys.argv.index('--tier') + 1]
        args = [a for a in args if a != tier]
    root = os.path.join(VERIF, 'seeded')
    ids = args or sorted(x for x in os.listdir(root) if os.path.isdir(os.path.join(root, x)))
    out = []
    for sid in ids:
        r = run_one(sid, runs, tier)
        print('%-28s %s  %s' % (sid, 'CAUGHT' if r.get('caught') else 'MISSED (%s)' % r.get('status', 'exit %s' % r.get('check_exit')),
                                (r.get('lines') or [''])[0][:200]))
        sys.stdout.flush()
        out.append(r)
    path = os.path.join(root, 'RESULTS.json')
    prev = {}
    if os.path.exists(path):
        prev = {r['id']: r for r in json.load(open(path))}
    for r in out:
        prev[r['id']] = r
    json.dump([prev[k] for k in sorted(prev)], open(path, 'w'), indent=1)
    return 0


if __name__ == '__main__':
    sys.exit(main())
