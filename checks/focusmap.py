#!/venv/bin/python
"""Write sim/focus_baseline.json: AST hashes of every package function at the current /repo tree and, per
client-level public call, the package functions observed executing under it (sys.monitoring PY_START).
Run it whenever /repo's HEAD changes (e.g. after a fix: commit).   focusmap.py [N plans]"""
import json
import os
import subprocess
import sys

sys.path.insert(0, os.path.dirname(os.path.dirname(os.path.abspath(__file__))))
from sim import core  # noqa: E402

TOOL = 3


def main():
    n = int(sys.argv[1]) if len(sys.argv) > 1 else 1500
    core.reexec_pinned()
    core.import_pkg()
    from sim import budget, c20, focus
    ad = c20.Adapter()
    ad.prepare('quick')
    mon = sys.monitoring
    mon.use_tool_id(TOOL, 'kneesim-focusmap')
    reach = {}

    def cb(code, off):
        cur = c20.CURRENT_CALL[0]
        if cur is None:
            return
        mod = os.path.basename(code.co_filename)[:-3]
        name = code.co_qualname.split('.')[0]
        reach.setdefault(cur, set()).add('%s.%s' % (mod, name))
    mon.register_callback(TOOL, mon.events.PY_START, cb)
    for name in sorted(sys.modules):
        if name.startswith('kneeliverse.') and sys.modules[name] is not None:
            for c in budget._codes_of(sys.modules[name]):
                if 'kneeliverse' in c.co_filename:
                    mon.set_local_events(TOOL, c, mon.events.PY_START)
    for i in range(n):
        plan = dict(ad.make_plan(12345, i, 'quick'))
        plan['iso'] = {}
        for cl in plan['clients']:
            for st in cl['steps']:
                if not st['fn'].startswith('caller.'):
                    reach.setdefault(st['fn'], set())
        for c in range(len(plan['clients'])):
            try:
                c20.run_ref_client(plan, c)
            except Exception as e:
                print('run', i, type(e).__name__, str(e)[:80])
            c20.CURRENT_CALL[0] = None
    head = subprocess.run(['git', '-C', '/repo', 'rev-parse', 'HEAD'], capture_output=True, text=True).stdout.strip()
    doc = {'repo_head': head, 'plans': n, 'hashes': focus.function_hashes(),
           'reach': {k: sorted(v) for k, v in sorted(reach.items())}}
    core.jdump(doc, focus.BASELINE)
    print('baseline for %s: %d functions hashed, reach recorded for %d client-level calls' % (head[:8], len(doc['hashes']), len(doc['reach'])))


if __name__ == '__main__':
    main()
