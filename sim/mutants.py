"""Sensitivity self-test: textual mutants applied to a scratch copy of /repo/src, one at a time.

Each mutant is (id, property, file, old, new).  The check for the property is run against the
scratch copy (KNEESIM_SRC) with a small budget and must exit 1 with a VIOLATION line.  A mutant
whose `old` text no longer occurs exactly once is reported as stale, not as a failure.  Nothing
is written to /repo or /verif; the scratch directory is removed after each mutant.
"""
import json
import os
import shutil
import subprocess
import sys
import tempfile

from . import core

M = []


def mut(mid, prop, fname, old, new, note='', scope=None, repl=None):
    """Either old -> new (old must occur exactly once), or, within the text between the two
    `scope` markers, every occurrence of repl[0] -> repl[1] (at least one)."""
    M.append({'id': mid, 'property': prop, 'file': fname, 'old': old, 'new': new, 'note': note, 'scope': scope, 'repl': repl})


PREFIX = {'c20-linear-fit-memo': ('logger = logging.getLogger(__name__)', 'logger = logging.getLogger(__name__)\n_FIT_MEMO = {}'),
          'c20-smooth-ranking-running-peak': ('logger = logging.getLogger(__name__)', 'logger = logging.getLogger(__name__)\n_LAST = []')}


def apply_mutant(m, src):
    if m['id'] in PREFIX:
        a, b = PREFIX[m['id']]
        if src.count(a) != 1:
            return None
        src = src.replace(a, b)
    if m.get('scope'):
        a, b = m['scope']
        if src.count(a) != 1 or src.count(b) != 1:
            return None
        i, j = src.index(a), src.index(b)
        body = src[i:j]
        if body.count(m['repl'][0]) < 1:
            return None
        return src[:i] + body.replace(m['repl'][0], m['repl'][1]) + src[j:]
    if src.count(m['old']) != 1:
        return None
    return src.replace(m['old'], m['new'])


# ---- C15 ------------------------------------------------------------------------------------
mut('c15-default-mutable-cache', 'C15', 'evaluation.py',
    "def compute_global_cost(points: np.ndarray, reduced: np.ndarray, cost: metrics.Metrics = metrics.Metrics.rpd, cache:dict=None) -> float:",
    "def compute_global_cost(points: np.ndarray, reduced: np.ndarray, cost: metrics.Metrics = metrics.Metrics.rpd, cache:dict={}) -> float:",
    'mutable default argument: hidden process-wide cache; passes all 92 tests')
mut('c15-key-left-only', 'C15', 'evaluation.py', None, None, 'cache key ignores the right end',
    scope=('def compute_global_cost(', 'def compute_global_segment_cost('), repl=('(left, right)', '(left,)'))
mut('c15-key-positional', 'C15', 'evaluation.py', None, None, 'cache keyed by segment position instead of end points',
    scope=('def compute_global_cost(', 'def compute_global_segment_cost('), repl=('(left, right)', '(i-1, i)'))
mut('c15-divisor-n', 'C15', 'evaluation.py',
    "    total = len(points) + len(segment_errors) - 1", "    total = len(points)", 'divisor forgets the shared segment heads')
mut('c15-divisor-plus-one', 'C15', 'evaluation.py',
    "    total = len(points) + len(segment_errors) - 1", "    total = len(points) + len(segment_errors)", 'off-by-one divisor')
mut('c15-no-clip', 'C15', 'evaluation.py',
    "    cost = 0 if cost < 0 else cost", "    cost = cost", 'R2 not clipped at 0')
mut('c15-short-segment-3', 'C15', 'evaluation.py',
    "            if len(pt) <= 2:\n                cache[(left, right)] = 0", "            if len(pt) <= 3:\n                cache[(left, right)] = 0",
    '3-point segments contribute 0')
mut('c15-tss-from-prefix', 'C15', 'evaluation.py',
    "            y = points[:,1]\n            y_mean = np.mean(y)", "            y = points[:int(right)+1,1] if False else points[1:,1]\n            y_mean = np.mean(y)",
    'TSS computed without the first point')
mut('c15-rmse-divisor', 'C15', 'evaluation.py',
    "    return math.sqrt(np.sum(segment_errors)/len(points))", "    return math.sqrt(np.sum(segment_errors)/(len(points)-1))", 'global RMSE divisor n-1')
mut('c15-rmse-key-right-only', 'C15', 'evaluation.py', None, None, 'global RMSE cache keyed by right end only',
    scope=('def compute_global_rmse(', 'def mip('), repl=('(left, right)', '(right,)'))
mut('c15-rmse-key-len', 'C15', 'evaluation.py', None, None, 'global RMSE cache keyed by segment length (two equal-length segments collide)',
    scope=('def compute_global_rmse(', 'def mip('), repl=('(left, right)', '(right-left,)'))
mut('c15-mip-delete-wrong-index', 'C15', 'evaluation.py',
    "        cost_ref = compute_global_rmse(points, np.delete(reduced, i), cache)",
    "        cost_ref = compute_global_rmse(points, np.delete(reduced, max(i-1, 1)), cache)", 'MIP deletes the wrong breakpoint')
mut('c15-mip-mean', 'C15', 'evaluation.py', "    mip = np.median(ip)", "    mip = np.mean(ip)", 'MIP is the mean')
mut('c15-rmsle-no-sqrt', 'C15', 'evaluation.py',
    "    elif cost is metrics.Metrics.rmsle:\n        #return np.sum(np.square((np.log(y+1) - np.log(y_hat+1))))\n        cost = math.sqrt(np.sum(segment_errors)/total)",
    "    elif cost is metrics.Metrics.rmsle:\n        #return np.sum(np.square((np.log(y+1) - np.log(y_hat+1))))\n        cost = np.sum(segment_errors)/total",
    'RMSLE without the square root')
mut('c15-rpd-minimum', 'C15', 'evaluation.py',
    "        return np.sum(np.abs((y - y_hat) / (np.maximum(y, y_hat)+eps)))", "        return np.sum(np.abs((y - y_hat) / (np.minimum(y, y_hat)+eps)))",
    'RPD divides by the minimum')
mut('c15-stale-write-after-hit', 'C15', 'evaluation.py',
    "        segment_errors[i-1] = cache[(left, right)]\n        left = right\n\n    return compute_cost(points, segment_errors, cost, cache)",
    "        segment_errors[i-1] = cache[(left, right)]\n        if i > 1: cache[(reduced[i-2], right)] = cache.get((reduced[i-2], right), segment_errors[i-1])\n        left = right\n\n    return compute_cost(points, segment_errors, cost, cache)",
    'poisons the merged-segment key with the right half (only visible after coarsening against the same cache)')

def scratch_copy():
    d = tempfile.mkdtemp(prefix='kneesim-mut-%d-' % os.getpid(), dir='/tmp')
    shutil.copytree(core.REPO_SRC if os.path.isdir(core.REPO_SRC) else '/repo/src', os.path.join(d, 'src'),
                    ignore=shutil.ignore_patterns('__pycache__', '*.egg-info'))
    if os.path.isdir('/repo/traces'):
        os.symlink('/repo/traces', os.path.join(d, 'traces'))
    return d


def run_mutant(m, tier='quick', runs=None, timeout=900):
    d = scratch_copy()
    try:
        path = os.path.join(d, 'src', 'kneeliverse', m['file'])
        with open(path) as f:
            src = f.read()
        new_src = apply_mutant(m, src)
        if new_src is None:
            return {'id': m['id'], 'status': 'stale'}
        with open(path, 'w') as f:
            f.write(new_src)
        try:
            compile(open(path).read(), path, 'exec')
        except SyntaxError as e:
            return {'id': m['id'], 'status': 'stale', 'why': 'does not compile: %s' % e}
        env = dict(os.environ)
        env.pop('KNEESIM_PINNED', None)
        env['KNEESIM_SRC'] = os.path.join(d, 'src')
        env['KNEESIM_OUT'] = os.path.join(d, 'out')
        env['KNEESIM_FAIL_FAST'] = '1'
        cmd = [sys.executable, os.path.join(core.VERIF_DIR, 'checks', 'run.py'), m['property'], '--tier', tier]
        if m['id'] not in globals().get('NEEDS_SELFTEST', set()):
            cmd.append('--no-selftest')
        if runs:
            cmd += ['--runs', str(runs)]
        try:
            p = subprocess.run(cmd, env=env, capture_output=True, text=True, timeout=timeout)
        except subprocess.TimeoutExpired:
            return {'id': m['id'], 'status': 'timeout'}
        killed = p.returncode == 1 and 'VIOLATION property=%s' % m['property'] in p.stdout
        detail = ([l for l in p.stdout.splitlines() if l.startswith('violation detail')] +
                  [l for l in p.stdout.splitlines() if l.startswith('HARNESS')])[:2]
        return {'id': m['id'], 'status': 'killed' if killed else ('harness_error' if p.returncode == 2 else 'survived'),
                'exit': p.returncode, 'detail': [x[:300] for x in detail], 'tail': p.stdout[-300:] if not killed else ''}
    finally:
        shutil.rmtree(d, ignore_errors=True)


def main(prop=None, tier='quick', runs=None, only=None):
    import concurrent.futures as cf
    todo = [m for m in M if (prop is None or m['property'] == prop) and (only is None or m['id'] in only)]
    res = []
    # mutants run one at a time: each check already uses every core
    for m in todo:
        r = run_mutant(m, 'quick', runs or {'C15': 6000, 'C20': 1500}.get(m['property']))
        print('MUTANT %-34s %s %s' % (m['id'], r['status'], (r.get('detail') or [''])[0][:160]))
        sys.stdout.flush()
        res.append(r)
    killed = sum(r['status'] == 'killed' for r in res)
    stale = sum(r['status'] == 'stale' for r in res)
    print('sensitivity: %d/%d killed (%d stale)' % (killed, len(res) - stale, stale))
    out = os.path.join(core.OUT_DIR, 'evidence', 'sensitivity-%s.json' % (prop or 'all'))
    os.makedirs(os.path.dirname(out), exist_ok=True)
    core.jdump({'mutants': res, 'killed': killed, 'tried': len(res) - stale, 'stale': stale}, out)
    return 0


# ---- C20 ------------------------------------------------------------------------------------
mut('c20-mapping-sort-in-place', 'C20', 'rdp.py',
    "        sorted_removed = removed[np.argsort(removed[:, 0])]", "        removed.sort(axis=0)\n        sorted_removed = removed",
    'mapping(sorted=False) sorts the caller\'s removed array in place')
mut('c20-curvature-shift-x-in-place', 'C20', 'curvature.py',
    "    x = points[:, 0]\n    y = points[:, 1]\n\n    gradient1 = grad.cfd(x, y)", "    x = points[:, 0]\n    x -= x[0]\n    y = points[:, 1]\n\n    gradient1 = grad.cfd(x, y)",
    'curvature.knee shifts the x column of the caller\'s array in place (result unchanged)')
mut('c20-rank-unwritten-slot', 'C20', 'knee_ranking.py',
    "    ranks[temp] = np.arange(len(array))", "    ranks[temp[1:]] = np.arange(1, len(array))",
    'rank() leaves the slot of the smallest element unwritten (np.empty_like garbage; zero by luck)')
mut('c20-linear-fit-memo', 'C20', 'linear_fit.py',
    "    d = x[0] - x[-1]\n    if d != 0:\n        m = (y[0] - y[-1])/(x[0] - x[-1])\n        b = y[0] - (m*x[0])\n        return (b, m)",
    "    key = (len(x), float(x[0]), float(x[-1]))\n    if key in _FIT_MEMO:\n        return _FIT_MEMO[key]\n    d = x[0] - x[-1]\n    if d != 0:\n        m = (y[0] - y[-1])/(x[0] - x[-1])\n        b = y[0] - (m*x[0])\n        _FIT_MEMO[key] = (b, m)\n        return (b, m)",
    'module-level memo keyed by the x range only', )
mut('c20-single-linkage-flat', 'C20', 'clustering.py',
    "    length = points[-1, 0] - points[0, 0]\n\n    # First Point is a cluster\n    clusters.append(cluster_index)\n\n    for i in range(1, len(points)):\n        distance = math.fabs(points[i][0]-points[i-1][0])/length",
    "    length = points[-1, 0] - points[0, 0]\n\n    # First Point is a cluster\n    clusters.append(cluster_index)\n\n    flat = points.ravel(order='K')\n    for i in range(1, len(points)):\n        distance = math.fabs(flat[2*i]-flat[2*i-2])/length",
    'single_linkage reads x through ravel(order=K) (memory order instead of logical order)')
mut('c20-int-floor-division', 'C20', 'linear_fit.py',
    "        m = (y[0] - y[-1])/(x[0] - x[-1])", "        m = (y[0] - y[-1])/(x[0] - x[-1]) if x.dtype.kind == 'f' else (y[0] - y[-1])//(x[0] - x[-1])",
    'integer floor division for integer input')
mut('c20-min-point-default-append', 'C20', 'rdp.py',
    "    t = sorted(t, reverse=True)", "    t.append(t[-1] / 10.0)\n    t = sorted(t, reverse=True)",
    'min_point_rdp appends to its (default or caller-supplied) threshold list')
mut('c20-filter-clusters-renamed-rank', 'C20', 'postprocessing.py',
    "                    rankings = kr.rank(rankings)", "                    rankings = kr.ranks(rankings)", 'call site not updated after a rename')
mut('c20-kneedle-differences-partial', 'C20', 'kneedle.py',
    "        for i in range(0, len(points)):\n            rv[i][0] = points[i][0]\n            rv[i][1] = points[i][0] + points[i][1]  # x + y",
    "        for i in range(1, len(points)):\n            rv[i][0] = points[i][0]\n            rv[i][1] = points[i][0] + points[i][1]  # x + y",
    'differences() never writes row 0 on the decreasing/clockwise branch (np.empty garbage)')
mut('c20-smooth-ranking-running-peak', 'C20', 'knee_ranking.py',
    "    peak = np.max(y[knees])", "    peak = max(float(np.max(y[knees])), _LAST[-1]) if _LAST else float(np.max(y[knees]))\n    _LAST.append(peak)",
    'smooth_ranking keeps a running maximum of the peak across calls (module-level state)')
mut('c20-cm-ravel-memory-order', 'C20', 'evaluation.py',
    "    knees_points_x = points[knees][:, 0]", "    knees_points_x = points.ravel(order='K')[2*np.asarray(knees, dtype=int)]",
    'cm() reads the x column through memory order (wrong for Fortran-ordered or strided points)')


# ---- reverts of the four repairs made in /repo (known_findings.json "fixed" entries suppress nothing) -------
mut('c20-revert-fix-min-point-sort', 'C20', 'rdp.py', "    t = sorted(t, reverse=True)", "    t.sort(reverse=True)",
    'revert of 4beead0: min_point_rdp sorts the caller\'s list in place')
mut('c20-revert-fix-ccw', 'C20', 'convex_hull.py', None, None, 'revert of 4327d19: graham_scan_lower/upper call the undefined name ccw',
    scope=('def graham_scan_lower(', 'def graham_scan_upper('), repl=('and _ccw(points[', 'and ccw(points['))
mut('c20-revert-fix-ema', 'C20', 'kneedle.py', None, None, 'revert of 3ba1656: kneedle calls the missing uts.ema.linear',
    scope=('def _knee(', 'def _knees('), repl=('ema.ema_linear(', 'ema.linear('))
mut('c20-revert-fix-contiguous', 'C20', 'linear_fit.py', "    p = np.ascontiguousarray(p)\n", "    p = p\n",
    'revert of 06db5f8: shortest_distance_points differs in the last bit for Fortran-ordered points (rare: data dependent)')

mut('c20-hashseed-string-set-order', 'C20', 'postprocessing.py',
    "                h_min = h\n\n        return np.array(filtered_knees)",
    "                h_min = h\n\n        filtered_knees = [int(v) for v in {str(int(k)) for k in filtered_knees}]  # de-duplicate\n        return np.array(filtered_knees)",
    'filter_worst_knees de-duplicates through a set of strings: result order depends on PYTHONHASHSEED (needs the self-test interpreters)')
NEEDS_SELFTEST = {'c20-hashseed-string-set-order'}
