"""Process isolation: run a function in a forked child of the (pristine) calling process.

Every simulated run executes in its own child, so a run is a function of (seed, code) only —
library state left behind by an earlier run (a hidden memo, a mutable default argument) cannot
leak from one run into the next, the verdict of a run cannot depend on which worker executed
which other runs before it, and a replay in a fresh interpreter starts from the same state.
The forking process never executes library code paths beyond the fixed warm-up.
"""
import signal
import os
import pickle
import struct
import sys
import traceback


class ChildFailed(Exception):
    """The child did not deliver a result.  `signal` is the number of the signal that killed it, if any."""
    signal = None


CRASH_SIGNALS = {}
HANG_SIGNAL = int(signal.SIGALRM)      # the child's own wall-clock backstop fired
for _n in ('SIGSEGV', 'SIGBUS', 'SIGFPE', 'SIGILL', 'SIGABRT'):
    if hasattr(signal, _n):
        CRASH_SIGNALS[int(getattr(signal, _n))] = _n


def enter_private_dir():
    """Every execution gets an empty working / temporary directory of its own (below the run's directory), so that
    state a library leaves in the file system cannot travel between the isolated clients, the pristine-process
    replays and the simulated world — and is seen by the ambient-state oracle when it appears."""
    import tempfile
    root = os.environ.get('KNEESIM_RUNDIR')
    if not root or not os.path.isdir(root):
        return
    d = tempfile.mkdtemp(prefix='x', dir=root)
    os.environ['TMPDIR'] = d
    os.environ['HOME'] = d
    tempfile.tempdir = None
    os.chdir(d)


def with_rundir(fn, args=(), timeout=300):
    """call() inside a fresh run directory under /tmp that is removed afterwards."""
    import shutil
    import tempfile
    root = tempfile.mkdtemp(prefix='kneesim-run-', dir='/tmp')
    old = os.environ.get('KNEESIM_RUNDIR')
    os.environ['KNEESIM_RUNDIR'] = root
    try:
        return call(fn, args, timeout)
    finally:
        if old is None:
            os.environ.pop('KNEESIM_RUNDIR', None)
        else:
            os.environ['KNEESIM_RUNDIR'] = old
        shutil.rmtree(root, ignore_errors=True)


def call(fn, args=(), timeout=300):
    """Run fn(*args) in a forked child; return its (picklable) result.  Raises ChildFailed if the
    child crashed, timed out or raised."""
    r, w = os.pipe()
    sys.stdout.flush()
    sys.stderr.flush()
    pid = os.fork()
    if pid == 0:
        code = 0
        try:
            os.close(r)
            signal.signal(signal.SIGALRM, signal.SIG_DFL)
            signal.alarm(int(timeout))   # wall-clock backstop only: the child dies, the parent reports a harness error
            enter_private_dir()
            try:
                res = ('ok', fn(*args))
            except BaseException:
                res = ('err', traceback.format_exc()[-3000:])
            data = pickle.dumps(res, protocol=4)
            with os.fdopen(w, 'wb') as f:
                f.write(struct.pack('<Q', len(data)))
                f.write(data)
        except BaseException:
            code = 3
        finally:
            os._exit(code)
    os.close(w)
    chunks = []
    with os.fdopen(r, 'rb') as f:
        while True:
            b = f.read(1 << 16)
            if not b:
                break
            chunks.append(b)
    _, status = os.waitpid(pid, 0)
    data = b''.join(chunks)
    if len(data) < 8:
        e = ChildFailed('child produced no result (status %d)' % status)
        if os.WIFSIGNALED(status):
            e.signal = os.WTERMSIG(status)
        raise e
    n = struct.unpack('<Q', data[:8])[0]
    if len(data) - 8 != n:
        raise ChildFailed('child result truncated (status %d)' % status)
    kind, val = pickle.loads(data[8:])
    if kind == 'err':
        raise ChildFailed(val)
    return val
