"""Process isolation: run a function in a forked child of the (pristine) calling process.

Every simulated run executes in its own child, so a run is a function of (seed, code) only —
library state left behind by an earlier run (a hidden memo, a mutable default argument) cannot
leak from one run into the next, the verdict of a run cannot depend on which worker executed
which other runs before it, and a replay in a fresh interpreter starts from the same state.
The forking process never executes library code paths beyond the fixed warm-up.
"""
import signal
import os
import pickle
import struct
import sys
import traceback


class ChildFailed(Exception):
    """The child did not deliver a result.  `signal` is the number of the signal that killed it, if any."""
    signal = None


CRASH_SIGNALS = {}
for _n in ('SIGSEGV', 'SIGBUS', 'SIGFPE', 'SIGILL', 'SIGABRT'):
    if hasattr(signal, _n):
        CRASH_SIGNALS[int(getattr(signal, _n))] = _n


def call(fn, args=(), timeout=300):
    """Run fn(*args) in a forked child; return its (picklable) result.  Raises ChildFailed if the
    child crashed, timed out or raised."""
    r, w = os.pipe()
    sys.stdout.flush()
    sys.stderr.flush()
    pid = os.fork()
    if pid == 0:
        code = 0
        try:
            os.close(r)
            signal.signal(signal.SIGALRM, signal.SIG_DFL)
            signal.alarm(int(timeout))   # wall-clock backstop only: the child dies, the parent reports a harness error
            try:
                res = ('ok', fn(*args))
            except BaseException:
                res = ('err', traceback.format_exc()[-3000:])
            data = pickle.dumps(res, protocol=4)
            with os.fdopen(w, 'wb') as f:
                f.write(struct.pack('<Q', len(data)))
                f.write(data)
        except BaseException:
            code = 3
        finally:
            os._exit(code)
    os.close(w)
    chunks = []
    with os.fdopen(r, 'rb') as f:
        while True:
            b = f.read(1 << 16)
            if not b:
                break
            chunks.append(b)
    _, status = os.waitpid(pid, 0)
    data = b''.join(chunks)
    if len(data) < 8:
        e = ChildFailed('child produced no result (status %d)' % status)
        if os.WIFSIGNALED(status):
            e.signal = os.WTERMSIG(status)
        raise e
    n = struct.unpack('<Q', data[:8])[0]
    if len(data) - 8 != n:
        raise ChildFailed('child result truncated (status %d)' % status)
    kind, val = pickle.loads(data[8:])
    if kind == 'err':
        raise ChildFailed(val)
    return val
