"""kneesim core: seed derivation, pinned environment, package import, digests.

One integer decides everything: run i of property P under base seed S uses
random.Random(run_seed(P, S, i)).  Nothing in this module reads a clock or draws
from a PRNG on a logging / digesting path.
"""
import hashlib
import json
import os
import random
import struct
import sys

VERIF_DIR = os.path.dirname(os.path.dirname(os.path.abspath(__file__)))
REPO_SRC = os.environ.get('KNEESIM_SRC', '/repo/src')
# evidence / replay files go here; the mutant self-test redirects them to its scratch directory
OUT_DIR = os.environ.get('KNEESIM_OUT', VERIF_DIR)

PINNED_ENV = {
    'PYTHONHASHSEED': '0',
    'OPENBLAS_NUM_THREADS': '1',
    'OMP_NUM_THREADS': '1',
    'MKL_NUM_THREADS': '1',
    'NUMBA_NUM_THREADS': '1',
    'NUMBA_DISABLE_PERFORMANCE_WARNINGS': '1',
    'PYTHONDONTWRITEBYTECODE': '1',
}


def reexec_pinned(hashseed=None):
    """Re-exec the interpreter once with the pinned environment (hash seed, single
    threaded BLAS/numba).  KNEESIM_PINNED marks the re-exec'd process."""
    want = dict(PINNED_ENV)
    if hashseed is not None:
        want['PYTHONHASHSEED'] = str(hashseed)
    elif os.environ.get('KNEESIM_HASHSEED'):
        want['PYTHONHASHSEED'] = os.environ['KNEESIM_HASHSEED']
    if os.environ.get('KNEESIM_PINNED') == '1' and all(os.environ.get(k) == v for k, v in want.items()):
        return
    env = dict(os.environ)
    env.update(want)
    env['KNEESIM_PINNED'] = '1'
    sys.stdout.flush()
    sys.stderr.flush()
    os.execve(sys.executable, [sys.executable] + sys.argv, env)


def import_pkg():
    """Import kneeliverse from the working tree (REPO_SRC), never from site-packages."""
    if sys.path[0] != REPO_SRC:
        sys.path.insert(0, REPO_SRC)
    import logging
    logging.disable(logging.CRITICAL)
    import warnings
    warnings.filterwarnings('ignore')
    import numpy as np   # NumPy's floating-point error state is left at its default: it is part of the ambient state P4 watches
    global IMPORT_PID
    IMPORT_PID = os.getpid()      # the process that imports the package (library code may remember it)
    import kneeliverse
    try:
        # every submodule now, whatever the package's own import style (PEP 562 lazy imports included): the seams
        # and the step budget are installed on the modules that exist at warm-up
        import importlib
        import pkgutil
        for m_ in pkgutil.iter_modules(kneeliverse.__path__):
            try:
                importlib.import_module('kneeliverse.' + m_.name)
            except Exception:
                pass
    except Exception:
        pass
    f = os.path.realpath(kneeliverse.__file__)
    if not f.startswith(os.path.realpath(REPO_SRC) + os.sep):
        raise RuntimeError('kneeliverse imported from %s, expected under %s' % (f, REPO_SRC))
    return kneeliverse


def run_seed(prop, base, i):
    h = hashlib.sha256(('%s|%d|%d' % (prop, int(base), int(i))).encode()).digest()
    return int.from_bytes(h[:8], 'big')


def rng_for(prop, base, i):
    return random.Random(run_seed(prop, base, i))


def base_seed():
    try:
        return int(os.environ.get('VERIF_SEED', '0'))
    except ValueError:
        return 0


def fbits(x):
    """Bit pattern of a float as hex string (NaN payloads preserved)."""
    return struct.pack('<d', float(x)).hex()


def fhex(x):
    return float(x).hex()


def unhex(s):
    return float.fromhex(s)


def sha(obj):
    """Stable digest of a JSON-able object."""
    return hashlib.sha256(json.dumps(obj, sort_keys=True, separators=(',', ':')).encode()).hexdigest()


def jdump(obj, path):
    tmp = path + '.tmp'
    with open(tmp, 'w') as f:
        json.dump(obj, f, indent=1, sort_keys=False)
        f.write('\n')
    os.replace(tmp, path)


IMPORT_PID = None


class HarnessError(Exception):
    """A failure of the machinery itself; never reported as a property violation."""
