"""Change-directed swarm: bias the seeded workload towards code that differs from the baseline.

The baseline (sim/focus_baseline.json, written by checks/focusmap.py against the /repo HEAD the
checks were built for) holds, per package function, a hash of its AST, and per public function
that clients call, the set of package functions observed executing under it.  At check time the
working tree is hashed the same way; functions whose AST differs (or whose module-level code
differs) form the changed set, and the client-level calls that reach them form the focus set.
Plan generation then prefers plans containing a focus call (rejection sampling on the same PRNG
stream).  With an unchanged tree the focus set is empty and nothing changes.  The focus only
redistributes sampling effort: every oracle is the same, and a plan is still a pure function of
(seed, code).
"""
import ast
import hashlib
import json
import os

from . import core

BASELINE = os.path.join(os.path.dirname(os.path.abspath(__file__)), 'focus_baseline.json')


def function_hashes(src_dir=None):
    src_dir = src_dir or core.REPO_SRC
    pkg = os.path.join(src_dir, 'kneeliverse')
    out = {}
    for name in sorted(os.listdir(pkg)):
        if not name.endswith('.py') or name == '__init__.py':
            continue
        mod = name[:-3]
        try:
            with open(os.path.join(pkg, name)) as f:
                tree = ast.parse(f.read())
        except Exception:
            out['%s.<unparsable>' % mod] = 'x'
            continue
        rest = []
        for node in tree.body:
            if isinstance(node, (ast.FunctionDef, ast.AsyncFunctionDef)):
                out['%s.%s' % (mod, node.name)] = _h(node)
            elif isinstance(node, ast.ClassDef):
                out['%s.%s' % (mod, node.name)] = _h(node)
            elif isinstance(node, ast.Expr) and isinstance(getattr(node, 'value', None), ast.Constant):
                continue          # docstrings
            else:
                rest.append(ast.dump(node))
        out['%s.<module>' % mod] = hashlib.sha256('\n'.join(rest).encode()).hexdigest()[:16]
    return out


def _h(node):
    # decorators and body, not positions; the docstring is dropped so that comment-only edits do not count
    body = list(node.body)
    if body and isinstance(body[0], ast.Expr) and isinstance(getattr(body[0], 'value', None), ast.Constant) \
            and isinstance(body[0].value.value, str):
        body = body[1:]
    parts = [ast.dump(node.args) if hasattr(node, 'args') else ''] + [ast.dump(d) for d in getattr(node, 'decorator_list', [])]
    parts += [ast.dump(b) for b in body]
    return hashlib.sha256('\n'.join(parts).encode()).hexdigest()[:16]


def load_baseline():
    if not os.path.exists(BASELINE):
        return None
    with open(BASELINE) as f:
        return json.load(f)


def changed_functions(baseline, src_dir=None):
    cur = function_hashes(src_dir)
    base = baseline['hashes']
    ch = set(k for k in cur if base.get(k) != cur[k]) | set(k for k in base if k not in cur)
    mods = set(k.split('.')[0] for k in ch if k.endswith('.<module>') or k.endswith('.<unparsable>'))
    for k in list(cur) + list(base):
        if k.split('.')[0] in mods:
            ch.add(k)
    return sorted(k for k in ch if not k.endswith('>'))


def focus_calls(baseline, changed):
    ch = set(changed)
    return sorted(fn for fn, reach in baseline.get('reach', {}).items() if ch & set(reach) or fn in ch)


def metrics_users(names, src_dir=None):
    """Package functions that mention `metrics.<name>` for one of the given numba-compiled metric functions
    (their Python bodies never run, so the dynamic reach map cannot see who uses them)."""
    src_dir = src_dir or core.REPO_SRC
    pkg = os.path.join(src_dir, 'kneeliverse')
    want = set(n.split('.', 1)[1] for n in names if n.startswith('metrics.'))
    users = set()
    if not want:
        return users
    for fname in sorted(os.listdir(pkg)):
        if not fname.endswith('.py'):
            continue
        try:
            with open(os.path.join(pkg, fname)) as f:
                tree = ast.parse(f.read())
        except Exception:
            continue
        for node in tree.body:
            if isinstance(node, (ast.FunctionDef, ast.AsyncFunctionDef)):
                for sub in ast.walk(node):
                    if isinstance(sub, ast.Attribute) and sub.attr in want and isinstance(sub.value, ast.Name) \
                            and sub.value.id == 'metrics':
                        users.add('%s.%s' % (fname[:-3], node.name))
    return users


def compute(src_dir=None):
    """Returns {'changed': [...], 'focus': [...]} (both empty when there is no baseline or no change)."""
    b = load_baseline()
    if b is None:
        return {'changed': [], 'focus': [], 'baseline': None}
    ch = changed_functions(b, src_dir)
    reach_for = sorted(set(ch) | metrics_users(ch, src_dir))
    return {'changed': ch, 'focus': focus_calls(b, reach_for) if ch else [], 'baseline': b.get('repo_head')}
