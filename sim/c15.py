"""C15 — global reconstruction cost: definition and cache transparency.

A *plan* is a self-contained, JSON-able description of one simulated run: the sessions
(caller clients, each with a curve, an API/metric and a cache handle) and the exact sequence of
scheduler steps (queries and faults, all with absolute arguments).  `gen_plan` draws a plan from
one PRNG; `execute` runs it against the real library and evaluates the oracles after every step.
The plan is also the replay file.
"""
import copy
import math

import numpy as np

from . import curves, refmodel
from .core import fbits, fhex, unhex, sha

APIS = ('cost:r2', 'cost:rmspe', 'cost:rmsle', 'cost:rpd', 'cost:smape', 'rmse')
MODES = ('shared', 'default', 'fresh')
MOVES = ('refine', 'coarsen', 'shift', 'subset', 'all', 'ends', 'repeat', 'blocks')
FAULTS = ('RESTART', 'SNAPSHOT', 'ROLLBACK', 'DUP', 'HANDOVER', 'REFILL')
DIAG_FAULTS = ('EVICT', 'INTERRUPT')


# ----------------------------------------------------------------------------- generation

def _move(rng, n, R, kind):
    R = list(R)
    interior = [r for r in range(1, n - 1) if r not in R]
    if kind == 'refine' and interior:
        R.append(rng.choice(interior))
        R.sort()
    elif kind == 'coarsen' and len(R) > 2:
        del R[rng.randrange(1, len(R) - 1)]
    elif kind == 'shift' and len(R) > 2:
        k = rng.randrange(1, len(R) - 1)
        d = rng.choice([-1, 1])
        v = R[k] + d
        if R[k - 1] < v < R[k + 1]:
            R[k] = v
    elif kind == 'subset':
        if n > 2:
            k = rng.randint(0, min(n - 2, 12))
            R = sorted([0, n - 1] + rng.sample(range(1, n - 1), k))
    elif kind == 'blocks':
        # segments of exactly L points (block sizes of chunked implementations), remainder at the end
        L = rng.choice([3, 4, 8, 16, 32, 64, 128, 256, 512, 1024, 2048, 4096, 8192] if n <= 2100 else [16, 64, 256, 512, 1024, 2048, 4096, 8192])
        if n > L:
            R = list(range(0, n - 1, L - 1)) + [n - 1]
            R = sorted(set(R))
    elif kind == 'all':
        R = list(range(n))
    elif kind == 'ends':
        R = [0, n - 1]
    # 'repeat' or impossible move: unchanged
    return R


def gen_plan(rng, tier='quick', config='B', traces=None, boost=()):
    """Draw one plan.  config 'A': queries only; 'B': queries + faults inside the property's
    quantifier; 'C': additionally the diagnostic faults (EVICT / INTERRUPT)."""
    nsess = rng.choice([1, 1, 2, 2, 3, 4])
    # swarm: enabled subsets
    fams = rng.sample(curves.FAMILIES, rng.randint(1, len(curves.FAMILIES)))
    moves = rng.sample(MOVES, rng.randint(2, len(MOVES)))
    if 'refine' not in moves and 'subset' not in moves and 'all' not in moves:
        moves.append('refine')
    faults = []
    if config in ('B', 'C'):
        faults = rng.sample(FAULTS, rng.randint(1, len(FAULTS)))
    if config == 'C':
        faults = faults + rng.sample(DIAG_FAULTS, rng.randint(1, 2))
    fault_rate = rng.choice([0.05, 0.1, 0.2, 0.35]) if faults else 0.0
    mip_rate = rng.choice([0.0, 0.0, 0.05, 0.15])
    grdp_rate = rng.choice([0.0, 0.0, 0.03, 0.1])
    if 'mip' in boost:          # change-directed swarm (sim/focus.py): the working tree differs from the baseline there
        mip_rate = max(mip_rate, rng.choice([0.15, 0.3]))
    if 'grdp' in boost:
        grdp_rate = max(grdp_rate, rng.choice([0.1, 0.25]))
    pool = []
    sessions = []
    for s in range(nsess):
        if pool and rng.random() < 0.35:
            ci = rng.randrange(len(pool))          # same curve object, other session
        else:
            if traces and rng.random() < 0.25:
                name, arr = rng.choice(traces)
                a = rng.randrange(0, max(1, len(arr) - 4))
                stride = rng.choice([1, 1, 2, 5, 17])
                m = rng.choice([rng.randint(2, 12), rng.randint(9, 60), rng.randint(9, 60), rng.randint(61, 400)])
                pts = [list(map(float, p)) for p in arr[a::stride][:m]]
                if len(pts) < 2:
                    pts = [list(map(float, p)) for p in arr[:2]]
                fam = 'trace:' + name
            else:
                fam, pts = curves.gen_curve(rng, curves.draw_n(rng, tier), rng.choice(fams))
            pool.append({'family': fam, 'points': [[fhex(x), fhex(y)] for x, y in pts], 'readonly': False, 'int64': rng.random() < 0.5})
            ci = len(pool) - 1
        mode = rng.choice(['shared', 'shared', 'shared', 'default', 'fresh']) if config != 'A' \
            else rng.choice(['shared', 'shared', 'default', 'fresh'])
        sessions.append({'curve': ci, 'api': rng.choice(APIS), 'mode': mode,
                         'cache_kind': rng.choice(['dict', 'dict', 'OrderedDict'])})
    nsteps = rng.randint(4, 60 if tier == 'quick' else 200)
    if max(len(c_['points']) for c_ in pool) > 2100:
        nsteps = min(nsteps, 40)      # long curves: keep a run within seconds
    cur = {}
    steps = []
    snaps = [0] * nsess
    for s in range(nsess):
        n = len(pool[sessions[s]['curve']]['points'])
        cur[s] = [0, n - 1]
    last_q = {}
    prev_kind = None
    for _ in range(nsteps):
        s = rng.randrange(nsess)                               # the scheduler's choice
        n = len(pool[sessions[s]['curve']]['points'])
        fr = fault_rate
        if prev_kind in ('refine', 'coarsen', 'Q') and faults:
            fr = min(0.6, fault_rate * 2)                       # bias: in-flight cache state
        r = rng.random()
        if faults and r < fr:
            f = rng.choice(faults)
            if f == 'RESTART':
                steps.append({'s': s, 'op': 'RESTART'})
            elif f == 'SNAPSHOT':
                steps.append({'s': s, 'op': 'SNAPSHOT'})
                snaps[s] += 1
            elif f == 'ROLLBACK':
                if snaps[s]:
                    steps.append({'s': s, 'op': 'ROLLBACK', 'j': rng.randrange(snaps[s])})
                else:
                    steps.append({'s': s, 'op': 'SNAPSHOT'})
                    snaps[s] += 1
            elif f == 'DUP':
                if s in last_q:
                    q = dict(last_q[s])
                    q['dup'] = True
                    steps.append(q)
            elif f == 'HANDOVER':
                steps.append({'s': s, 'op': 'HANDOVER', 'mode': rng.choice(MODES)})
            elif f == 'REFILL':
                # the caller reads the next trace into the same buffer (same object, same address) and starts over
                # with new caches: anything keyed on the identity of the array is now stale
                steps.append({'s': s, 'op': 'REFILL', 'factor': fhex(rng.choice([0.5, 2.0, 3.0, 1.5])), 'flip': rng.random() < 0.4,
                              'shift_x': rng.random() < 0.3})
                snaps[s] = 0
                last_q.pop(s, None)
            elif f == 'EVICT':
                steps.append({'s': s, 'op': 'EVICT', 'frac': rng.choice([0.1, 0.5, 0.9]), 'salt': rng.randrange(1 << 30)})
            elif f == 'INTERRUPT':
                R = _move(rng, n, cur[s], rng.choice(moves))
                steps.append({'s': s, 'op': 'INTERRUPT', 'R': R, 'k': rng.randint(1, 40),
                              'rt': rng.choice(['nd', 'list'])})
            prev_kind = 'F'
            continue
        r = rng.random()
        if r < mip_rate and n >= 3:
            R = cur[s] if len(cur[s]) > 2 else _move(rng, n, cur[s], 'refine')
            cap = 30 if rng.random() < 0.85 else 150
            if len(R) > cap + 2:      # MIP costs one evaluation per interior breakpoint (and the oracle as many again)
                R = sorted([R[0], R[-1]] + rng.sample(R[1:-1], cap))
            elif cap == 150 and n > 70 and len(R) < 70:
                R = sorted(set(R) | set(rng.sample(range(1, n - 1), min(n - 2, rng.randint(66, 140)))))
            if len(R) > 2:
                steps.append({'s': s, 'op': 'MIP', 'R': list(R), 'rt': rng.choice(['nd', 'nd', 'nd32', 'nd16', 'nd8', 'list'])})
                prev_kind = 'MIP'
                continue
        if (r < mip_rate + grdp_rate and n >= 3 and sessions[s]['api'] != 'rmse' and n <= 400
                and (n <= 120 or sum(1 for q in steps if q['op'] == 'GRDP') < 3)):
            steps.append({'s': s, 'op': 'GRDP', 't': fhex(rng.choice([0.5, 0.1, 0.01, 0.001, 0.95, 0.99])),
                          'order': rng.choice(['triangle', 'area', 'segment']),
                          'distance': 'shortest'})
            prev_kind = 'GRDP'
            continue
        kind = rng.choice(moves)
        if kind == 'all' and n > 2100:
            kind = 'blocks'          # every point a breakpoint costs O(n) Python-level work per evaluation (x4 with the oracles)
        R = _move(rng, n, cur[s], kind)
        cur[s] = R
        q = {'s': s, 'op': 'Q', 'R': list(R), 'rt': rng.choice(['nd', 'nd', 'list', 'slist', 'snd', 'snd', 'nd32', 'nd16', 'nd8'])}
        steps.append(q)
        last_q[s] = q
        prev_kind = kind if kind in ('refine', 'coarsen') else 'Q'
    # fingerprint twins (drawn last, so every earlier draw of the plan is what it was before this existed): two
    # consecutive queries of one session whose breakpoint sets differ but agree in length, end points, index sum
    # and index sum of squares (Prouhet-Tarry-Escott: o+d*{0,3,5,6} vs o+d*{1,2,4,7}) - whatever an implementation
    # memoises under a cheap fingerprint of the query instead of the query itself collides here
    if rng.random() < 0.3:
        s = rng.randrange(nsess)
        n = len(pool[sessions[s]['curve']]['points'])
        if n >= 11:
            d = rng.randint(1, min(4, (n - 3) // 7))
            o = rng.randint(1, n - 2 - 7 * d)
            free = [r for r in range(1, n - 1) if not (o <= r <= o + 7 * d)]
            base = rng.sample(free, min(len(free), rng.randint(0, 6)))
            RA = sorted(set([0, n - 1] + base + [o + d * k for k in (0, 3, 5, 6)]))
            RB = sorted(set([0, n - 1] + base + [o + d * k for k in (1, 2, 4, 7)]))
            if rng.random() < 0.5:
                RA, RB = RB, RA
            rt = rng.choice(['nd', 'list', 'nd32'])
            at = rng.randint(0, len(steps))
            steps[at:at] = [{'s': s, 'op': 'Q', 'R': RA, 'rt': rt}, {'s': s, 'op': 'Q', 'R': RB, 'rt': rt}]
    return {'property': 'C15', 'config': config, 'tier': tier, 'pool': pool, 'sessions': sessions, 'steps': steps}


# ----------------------------------------------------------------------------- execution

class Violation(Exception):
    def __init__(self, oracle, step, detail):
        Exception.__init__(self, '%s at step %s: %s' % (oracle, step, detail))
        self.oracle = oracle
        self.step = step
        self.detail = detail


class _Interrupt(BaseException):
    pass


def _libs():
    import kneeliverse.evaluation as ev
    import kneeliverse.metrics as metrics
    import kneeliverse.rdp as rdp
    return ev, metrics, rdp


def _val(v):
    n_ = _number(v)
    return fbits(n_ if n_ is not None else float('nan'))


def _number(v):
    """The library's return value as a float, or None if it is not a real number (None, an array, a string...)."""
    try:
        if isinstance(v, (bool, str, bytes)) or v is None:
            return None
        if isinstance(v, np.ndarray) and v.size == 1:
            return float(v.reshape(-1)[0])
        return float(v)
    except Exception:
        return None


class _Sess(object):
    pass


def _call(ev, metrics, sess, R, rt, cache_kind):
    """One public call.  cache_kind: 'session' (whatever the session's mode dictates), 'fresh'
    ({}), 'omitted' (argument not passed)."""
    if rt == 'nd':
        Rarg = np.array(R, dtype=np.int64)
    elif rt == 'nd32':
        Rarg = np.array(R, dtype=np.int32)
    elif rt == 'nd16':
        Rarg = np.array(R, dtype=np.int16 if len(sess.points) < 30000 else np.int32)
    elif rt == 'nd8':
        # the narrowest dtype that holds the indices (np.int8 up to 120 points): arithmetic that stays in the
        # index dtype wraps at small sizes, which is where a dtype-preserving accumulator shows
        Rarg = np.array(R, dtype=np.int8 if len(sess.points) <= 120 else np.int16 if len(sess.points) < 30000 else np.int32)
    elif rt == 'ro':
        Rarg = np.array(R, dtype=np.int64)
        Rarg.flags.writeable = False       # e.g. indices that live in a memory-mapped or shared read-only array
    elif rt == 'tuple':
        Rarg = tuple(int(r) for r in R)
    elif rt == 'snd':
        # one index array per session, edited in place when the number of breakpoints is unchanged (a shift)
        if sess.rarr is not None and len(sess.rarr) == len(R):
            sess.rarr[:] = R
        else:
            sess.rarr = np.array(R, dtype=np.int64)
        Rarg = sess.rarr
    elif rt == 'slist':
        # one list object per session, edited in place between queries (what rdp._grdp does: append + sort)
        sess.rlist[:] = [int(r) for r in R]
        Rarg = sess.rlist
    else:
        Rarg = [int(r) for r in R]
    if cache_kind == 'session':
        if sess.mode == 'shared':
            args = (sess.cache,)
        elif sess.mode == 'fresh':
            args = ({},)
        else:
            args = None
    elif cache_kind == 'fresh':
        args = ({},)
    else:
        args = None
    if sess.api == 'rmse':
        if args is None:
            return ev.compute_global_rmse(sess.points, Rarg)
        return ev.compute_global_rmse(sess.points, Rarg, args[0])
    m = getattr(metrics.Metrics, sess.api.split(':')[1])
    if args is None:
        return ev.compute_global_cost(sess.points, Rarg, m)
    return ev.compute_global_cost(sess.points, Rarg, m, args[0])


def _new_cache(kind):
    """The caller's cache object: any dict will do for the API."""
    import collections
    if kind == 'OrderedDict':
        return collections.OrderedDict()
    if kind == 'defaultdict':
        return collections.defaultdict(float)
    return {}


def _valid_R(R, n, minlen):
    return (isinstance(R, list) and len(R) >= minlen and R[0] == 0 and R[-1] == n - 1
            and all(b > a for a, b in zip(R, R[1:])))


def _try(f, *a):
    try:
        return ('ok', f(*a))
    except BaseException as e:  # noqa  (SystemExit / KeyboardInterrupt raised by the library are its failure, not ours)
        return ('exc', type(e).__name__ + ': ' + str(e)[:200])


def _qcall(ev, metrics, sess, R, rt, cache_kind):
    """One query under the step budget.  ('ok', value) | ('exc', text).  A value that is not a number, a call that
    does not finish within the budget and a call that changes the caller's curve are reported as 'exc' texts
    (the definition promises a number for this input and the evaluator has no business writing to the curve)."""
    from . import budget
    r = _try(budget.run, 2000000 + budget.limit_for(len(sess.points)) + 50 * len(R), _call, ev, metrics, sess, R, rt, cache_kind)
    if r[0] == 'exc':
        return r
    st, v = r[1]
    if st == 'diverged':
        return ('exc', 'did not finish within the step budget')
    if _number(v) is None:
        return ('exc', 'returned %s instead of a number' % type(v).__name__)
    if not np.array_equal(sess.points, sess.orig):
        bad = int(np.sum(sess.points != sess.orig))
        sess.points[...] = sess.orig          # put the caller's curve back so that later steps mean what the plan says
        return ('exc', 'the evaluator changed %d value(s) of the curve it was given' % bad)
    return ('ok', v)


def _cache_sig(cache):
    try:
        return sha(sorted(map(repr, cache.keys())))
    except Exception:
        return 'opaque'


def execute(plan, stats=None, check=True, want_events=True):
    """Run a plan.  Returns dict(events, violation, stats).  `violation` is None or a dict with
    oracle id, step index and detail; the first failing oracle ends the run."""
    ev, metrics, rdp = _libs()
    try:
        import multiprocessing as _mp
        import os as _os
        from . import core as _core
        _mp.parent_process = lambda: None          # the run looks like the importing main process to library code
        _mp.current_process().name = 'MainProcess'
        if _core.IMPORT_PID is not None:
            _os.getpid = lambda: _core.IMPORT_PID
    except Exception:
        pass
    st = stats if stats is not None else {}

    def bump(k, d=1):
        st[k] = st.get(k, 0) + d

    pool = [np.array([[unhex(x), unhex(y)] for x, y in c['points']], dtype=float) for c in plan['pool']]
    for ci_, c in enumerate(plan['pool']):
        if c.get('int64') and np.all(pool[ci_] == np.round(pool[ci_])) and np.all(np.abs(pool[ci_]) < 2 ** 40):
            pool[ci_] = pool[ci_].astype(np.int64)        # integer-typed trace (cache sizes, counts), as in the library's own tests
    for c, arr in zip(plan['pool'], pool):
        if c.get('readonly'):
            arr.flags.writeable = False
    origs = [a.copy() for a in pool]      # what each curve buffer is supposed to hold (updated by REFILL)
    sessions = []
    for sd in plan['sessions']:
        s = _Sess()
        s.points = pool[sd['curve']]
        s.orig = origs[sd['curve']]
        s.curve = sd['curve']
        s.api = sd['api']
        s.mode = sd['mode']
        s.ckind = sd.get('cache_kind', 'dict')
        s.cache = _new_cache(s.ckind)
        s.snaps = []
        s.tainted = False
        s.snap_taint = []
        s.rlist = []
        s.rarr = None
        sessions.append(s)
    same_curve_diff_metric = len(set((s.curve) for s in sessions)) < len(sessions)
    if same_curve_diff_metric:
        bump('probe.two_sessions_same_curve')
    if any(s.mode == 'default' for s in sessions) and any(s.mode == 'shared' for s in sessions):
        bump('probe.default_and_shared_sessions')
    events = []
    poisoned_run = False
    history = []      # (session index, R, rt, value bits)
    violation = None
    nontrivial_partial = False
    nontrivial_fault = False
    cache_states = set()
    diag = []
    try:
        for k, stp in enumerate(plan['steps']):
            s = sessions[stp['s']]
            op = stp['op']
            n = len(s.points)
            if op in ('Q', 'MIP', 'INTERRUPT') and not _valid_R(stp.get('R'), n, 3 if op == 'MIP' else 2):
                events.append([k, stp['s'], 'SKIP-invalid'])
                continue
            if op == 'Q':
                R = stp['R']
                rt = stp.get('rt', 'nd')
                before = len(s.cache) if s.mode == 'shared' else None
                r_sess = _qcall(ev, metrics, s, R, rt, 'session')
                after = len(s.cache) if s.mode == 'shared' else None
                bump('queries')
                if stp.get('dup'):
                    bump('fault.DUP')
                    if before:
                        nontrivial_fault = True
                    else:
                        bump('fault.idle')
                if rt in ('list', 'slist'):
                    bump('probe.list_typed_R')
                if rt in ('slist', 'snd'):
                    bump('probe.same_list_object_edited_in_place')
                if rt in ('nd32', 'nd16', 'nd8'):
                    bump('probe.narrow_int_R')
                if r_sess[0] == 'exc':
                    if s.tainted:
                        # after a diagnostic fault (EVICT / INTERRUPT) nothing is decided for this session
                        diag.append({'step': k, 'oracle': 'O2', 'after': 'diagnostic fault (outside the property)',
                                     'exception': r_sess[1]})
                        events.append([k, stp['s'], 'Q', 'exc-after-diagnostic-fault'])
                        continue
                    raise Violation('O2', k, 'query raised on valid input: ' + r_sess[1])
                v = r_sess[1]
                vb = _val(v)
                events.append([k, stp['s'], 'Q', vb])
                if not s.tainted:
                    history.append((stp['s'], R, rt, vb))
                if before is not None:
                    nseg = len(R) - 1
                    grew = after - before
                    if grew == 0 and before > 0:
                        bump('probe.all_hit_query')
                    elif before == 0:
                        bump('probe.cold_query')
                    if 0 < grew < nseg and before > 0:
                        bump('probe.partially_warm_query')
                        nontrivial_partial = True
                    elif grew == 0 and before > 0 and nseg > 0:
                        nontrivial_partial = True
                    cache_states.add(_cache_sig(s.cache))
                if check:
                    # O1: refinement against the stateless self, bit-exact
                    r_fresh = _qcall(ev, metrics, s, R, rt, 'fresh')
                    r_omit = _qcall(ev, metrics, s, R, rt, 'omitted')
                    for name, r in (('fresh', r_fresh), ('omitted', r_omit)):
                        if r[0] == 'exc':
                            raise Violation('O2', k, 'query (%s cache) raised on valid input: %s' % (name, r[1]))
                        if _val(r[1]) != vb and s.tainted:
                            diag.append({'step': k, 'oracle': 'O1', 'after': 'diagnostic fault (outside the property)',
                                         'session_value': fhex(v), name + '_cache_value': fhex(r[1])})
                            break
                        if _val(r[1]) != vb:
                            raise Violation('O1', k, {'session_value': fhex(v), name + '_cache_value': fhex(r[1]),
                                                      'mode': s.mode, 'api': s.api, 'R': R})
                    if not s.tainted:
                        _check_definition(s, R, v, k, bump)
            elif op == 'MIP' and poisoned_run:
                events.append([k, stp['s'], 'MIP-skipped-after-interrupt'])
            elif op == 'GRDP' and poisoned_run:
                events.append([k, stp['s'], 'GRDP-skipped-after-interrupt'])
            elif op == 'MIP':
                R = stp['R']
                mdt = {'nd32': np.int32, 'nd16': np.int16 if len(s.points) < 30000 else np.int32,
                       'nd8': np.int8 if len(s.points) <= 120 else np.int16}.get(stp.get('rt'), np.int64)
                marg = [int(r) for r in R] if stp.get('rt') == 'list' else np.array(R, dtype=mdt)
                r = _try(ev.mip, s.points, marg)
                bump('mip_calls')
                if r[0] == 'exc':
                    raise Violation('O5', k, 'mip raised on valid input: ' + r[1])
                try:
                    mv, mad = r[1]
                    if _number(mv) is None or _number(mad) is None:
                        raise TypeError
                except Exception:
                    raise Violation('O5', k, 'mip did not return a pair of numbers: %r' % (r[1],))
                if not np.array_equal(s.points, s.orig):
                    s.points[...] = s.orig
                    raise Violation('O5', k, 'mip changed the curve it was given')
                events.append([k, stp['s'], 'MIP', _val(mv), _val(mad)])
                if check:
                    _check_mip(ev, s, R, mv, mad, k)
            elif op == 'GRDP':
                _grdp_step(ev, metrics, rdp, s, stp, k, events, bump, check)
            elif op == 'RESTART':
                if s.mode == 'shared' and len(s.cache) > 0:
                    nontrivial_fault = True
                    bump('fault.RESTART')
                else:
                    bump('fault.idle')
                s.cache = _new_cache(s.ckind)
                s.tainted = poisoned_run
                events.append([k, stp['s'], 'RESTART'])
            elif op == 'SNAPSHOT':
                try:
                    s.snaps.append(copy.deepcopy(s.cache))
                except Exception:
                    # a cache that cannot be copied (it may legitimately hold a lock or a handle): the caller simply
                    # cannot take this snapshot; a later ROLLBACK to it is a no-op
                    s.snaps.append(None)
                s.snap_taint.append(s.tainted)
                bump('fault.SNAPSHOT')
                events.append([k, stp['s'], 'SNAPSHOT', len(s.snaps) - 1])
            elif op == 'ROLLBACK':
                j = stp.get('j', 0)
                if j < len(s.snaps) and s.snaps[j] is not None:
                    if s.mode == 'shared' and len(s.cache) != len(s.snaps[j]):
                        nontrivial_fault = True
                        bump('fault.ROLLBACK')
                    else:
                        bump('fault.idle')
                    s.cache = copy.deepcopy(s.snaps[j])
                    s.tainted = s.snap_taint[j]
                events.append([k, stp['s'], 'ROLLBACK', j])
            elif op == 'REFILL':
                arr = s.points
                if arr.dtype.kind in 'fi':
                    fac = unhex(stp['factor'])
                    if arr.dtype.kind == 'i':
                        fac = int(fac) if fac >= 2 and float(fac).is_integer() else 2
                    new_y = (arr[::-1, 1] if stp.get('flip') else arr[:, 1]) * fac
                    if arr.dtype.kind == 'f' or np.all(np.abs(new_y) < 2 ** 40):
                        arr[:, 1] = new_y
                    if stp.get('shift_x'):
                        arr[:, 0] = arr[:, 0] + (3 if arr.dtype.kind == 'i' else 2.5)      # still strictly increasing
                    s.orig[...] = arr
                    bump('fault.REFILL')
                    if any(len(ss.cache) for ss in sessions if ss.points is arr):
                        nontrivial_fault = True
                    # every session on this buffer now works on a new curve: new caches (one cache per curve),
                    # snapshots of the old curve are void, and its recorded history no longer applies
                    for ss in sessions:
                        if ss.points is arr:
                            ss.cache = _new_cache(ss.ckind)
                            ss.snaps = []
                            ss.snap_taint = []
                            ss.tainted = poisoned_run
                    history = [h for h in history if sessions[h[0]].points is not arr]
                events.append([k, stp['s'], 'REFILL'])
            elif op == 'HANDOVER':
                if s.mode != stp['mode']:
                    bump('fault.HANDOVER')
                    if len(s.cache) > 0:
                        nontrivial_fault = True
                s.mode = stp['mode']
                events.append([k, stp['s'], 'HANDOVER', s.mode])
            elif op == 'EVICT':
                # diagnostic only: blind eviction of a pseudo-random subset of entries
                import random as _r
                rr = _r.Random(stp['salt'])
                keys = sorted(s.cache.keys(), key=repr)
                for key in keys:
                    if rr.random() < stp['frac']:
                        del s.cache[key]
                bump('diag.EVICT')
                s.tainted = True
                events.append([k, stp['s'], 'EVICT'])
            elif op == 'INTERRUPT':
                _interrupt_step(ev, metrics, s, stp, k, events, bump)
                # the injected BaseException lands at an arbitrary line: module-level state of a legitimate
                # implementation (a lazily built table, a memo) may be half-initialised, so nothing is decided
                # for any session of this run from here on
                for ss in sessions:
                    ss.tainted = True
                poisoned_run = True
            else:
                raise ValueError('unknown op ' + op)
            # diagnostics: after a diagnostic fault, later divergences are diagnostics, handled in O1 by caller
        if check and not poisoned_run:
            # O6: end-of-run history check, reverse order, fresh caches
            for (si, R, rt, vb) in reversed(history):
                s = sessions[si]
                r = _try(_call, ev, metrics, s, R, rt, 'fresh')
                if r[0] == 'exc' or _val(r[1]) != vb:
                    raise Violation('O6', len(plan['steps']), {'session': si, 'R': R, 'recorded': vb,
                                                                'replayed': r[1] if r[0] == 'exc' else _val(r[1])})
            bump('o6_checks', len(history))
    except Violation as e:
        violation = {'oracle': e.oracle, 'key': 'oracle=' + e.oracle, 'step': e.step, 'detail': e.detail}
    nontrivial = nontrivial_partial and (plan.get('config', 'B') == 'A' or nontrivial_fault)
    return {'events': events if want_events else None, 'digest': sha(events), 'violation': violation,
            'violations': [violation] if violation else [],
            'nontrivial': bool(nontrivial), 'diagnostics': diag, 'cache_states': sorted(cache_states), 'stats': st}


def _check_definition(s, R, v, k, bump):
    n = len(s.points)
    v = _number(v)
    pts = s.orig
    # O3 range / identities
    if (v != v or math.isinf(v)) and s.api == 'cost:rmsle' and refmodel.rmsle_nan_admitted(pts, R):
        bump('ref.nan_admitted_ill_conditioned_chord')
        return        # see refmodel.rmsle_nan_admitted: no verdict on the value (O1 still compared it bit for bit)
    if not (v >= 0):
        raise Violation('O3', k, {'value': fhex(v), 'why': 'value not >= 0', 'api': s.api, 'R': R})
    if s.api != 'rmse' and len(R) == n:
        bump('probe.all_points_R')
        want = 1.0 if s.api == 'cost:r2' else 0.0
        if v != want:
            raise Violation('O3', k, {'value': fhex(v), 'want': want, 'why': 'all points are breakpoints', 'api': s.api})
    if len(R) == 2:
        bump('probe.single_segment_R')
    if any(R[i + 1] - R[i] == 2 for i in range(len(R) - 1)):
        bump('probe.three_point_segment')
    if np.any(pts[:, 1] == 0):
        bump('probe.curve_with_zero_y')
    # O2 / O4 definition, interval form
    if s.api == 'rmse':
        lo, hi = refmodel.global_rmse_iv(pts, R)
        oid = 'O4'
    else:
        metric = s.api.split(':')[1]
        lo, hi = refmodel.global_cost_iv(pts, R, metric)
        oid = 'O2'
        if metric == 'r2' and np.all(pts[:, 1] == pts[0, 1]):
            bump('probe.r2_tss_zero')
    # width of the reference interval relative to the natural scale of the metric (1 for the relative
    # metrics and R2, the y range for the global RMSE): a reporting measure only
    scale = 1.0 if s.api != 'rmse' else (float(np.max(pts[:, 1]) - np.min(pts[:, 1])) or float(np.max(np.abs(pts[:, 1]))) or 1.0)
    w = (hi - lo) / max(abs(hi), scale) if math.isfinite(hi) else math.inf
    if w < 1e-9:
        bump('ref.tight')
    elif w < 1e-3:
        bump('ref.medium')
    else:
        bump('ref.wide')
    if not (lo <= v <= hi):
        raise Violation(oid, k, {'value': fhex(v), 'lo': fhex(lo), 'hi': fhex(hi), 'api': s.api, 'R': R})


def _check_mip(ev, s, R, mv, mad, k):
    """MIP = median over interior breakpoints of the RMSE increase caused by deleting that breakpoint; the
    second element is the median absolute deviation of those increases.  Both are checked against intervals
    derived from the reference model only (an O(k) implementation that reorders the float operations is as
    good as the library's), using that the median is monotone in each argument."""
    flo, fhi = refmodel.global_rmse_iv(s.orig, R)
    los = []
    his = []
    for i in range(1, len(R) - 1):
        Rd = R[:i] + R[i + 1:]
        rlo, rhi = refmodel.global_rmse_iv(s.orig, Rd)
        sl = 8 * refmodel.U * (abs(rhi) + abs(fhi)) + 1e-300
        los.append(rlo - fhi - sl)
        his.append(rhi - flo + sl)
    lo = float(np.median(np.array(los)))
    hi = float(np.median(np.array(his)))
    mvf = _number(mv)
    if not (lo <= mvf <= hi):
        raise Violation('O5', k, {'mip': fhex(mv), 'lo': fhex(lo), 'hi': fhex(hi), 'R': R, 'why': 'MIP outside the reference interval'})
    # |ip_i - mip| with ip_i in [los_i, his_i] and mip in [lo, hi]
    dlo = []
    dhi = []
    for a, b in zip(los, his):
        lo_d = 0.0 if (a - hi <= 0.0 <= b - lo) else min(abs(a - hi), abs(b - lo))
        dlo.append(lo_d)
        dhi.append(max(abs(a - hi), abs(b - lo)))
    mlo = float(np.median(np.array(dlo))) * (1 - 1e-12)
    mhi = float(np.median(np.array(dhi))) * (1 + 1e-12) + 1e-300
    if not (mlo <= _number(mad) <= mhi):
        raise Violation('O5', k, {'mad': fhex(mad), 'lo': fhex(mlo), 'hi': fhex(mhi), 'R': R, 'why': 'MAD outside the reference interval'})


def _grdp_step(ev, metrics, rdp, s, stp, k, events, bump, check):
    """Production history: grdp's own refinement chain against its private cache, compared with
    the same call in a world where the evaluator ignores the cache it is handed (every
    evaluation starts from an empty cache).  Cache transparency => identical reductions."""
    m = getattr(metrics.Metrics, s.api.split(':')[1])
    t = unhex(stp['t'])
    if m is metrics.Metrics.r2:
        t = max(t, 0.5)
    order = getattr(rdp.Order, stp['order'])
    dist = getattr(rdp.Distance, stp['distance'])
    from . import budget
    lim = budget.limit_for(len(s.points))
    r1 = _try(budget.run, lim, rdp.grdp, s.points, t, dist, m, order)
    bump('grdp_calls')
    if r1[0] == 'exc':
        events.append([k, stp['s'], 'GRDP', 'exc'])
        bump('grdp_exceptions')
        return
    if r1[1][0] == 'diverged':
        red1 = 'DIVERGED'
        bump('budget_hits')
    else:
        red1 = [int(v) for v in r1[1][1][0]]
    events.append([k, stp['s'], 'GRDP', red1])
    if not check:
        return
    import kneeliverse.evaluation as evmod
    real = evmod.compute_global_cost
    trace = []

    def bypass(points, reduced, *a, **kw):
        # same call, but the evaluator starts from an empty cache every time (whatever else it is given is kept)
        a = list(a)
        if 'cache' in kw:
            kw['cache'] = {}
        elif len(a) >= 2:
            a[1] = {}
        else:
            kw['cache'] = {}
        v = real(points, reduced, *a, **kw)
        trace.append(([int(r) for r in reduced], v))
        return v
    # every binding of the evaluator the simplifier could use: the module attribute and names imported from it
    patched = []
    for holder in (evmod, rdp):
        for name, obj in list(vars(holder).items()):
            if obj is real:
                patched.append((holder, name))
    try:
        for holder, name in patched:
            setattr(holder, name, bypass)
        r2 = _try(budget.run, lim, rdp.grdp, s.points, t, dist, m, order)
    finally:
        for holder, name in patched:
            setattr(holder, name, real)
    if not trace:
        bump('o7_not_applicable')      # the simplifier does not go through the public evaluator: nothing to compare
        return
    if r2[0] == 'exc':
        raise Violation('O7', k, 'grdp raised only when the evaluator ignores its cache: ' + r2[1])
    red2 = 'DIVERGED' if r2[1][0] == 'diverged' else [int(v) for v in r2[1][1][0]]
    if red1 != red2:
        raise Violation('O7', k, {'grdp_with_cache': red1, 'grdp_cache_bypassed': red2, 't': t, 'api': s.api})
    bump('o7_chain_len', len(trace))
    # the chain itself satisfies the definition
    for R, v in trace[-3:]:
        v = _number(v)
        if v is None:
            continue
        if (float(v) != float(v) or math.isinf(float(v))) and s.api == 'cost:rmsle' and refmodel.rmsle_nan_admitted(s.orig, R):
            continue
        lo, hi = refmodel.global_cost_iv(s.orig, R, s.api.split(':')[1])
        if not (lo <= float(v) <= hi):
            raise Violation('O2', k, {'value': fhex(v), 'lo': fhex(lo), 'hi': fhex(hi), 'api': s.api, 'R': R,
                                      'via': 'grdp refinement chain'})


def _interrupt_step(ev, metrics, s, stp, k, events, bump):
    """Diagnostic fault: BaseException at the j-th line event inside package frames."""
    import sys
    count = [0]
    target = stp['k']

    def tracer(frame, event, arg):
        if 'kneeliverse' not in frame.f_code.co_filename:
            return None
        if event == 'line':
            count[0] += 1
            if count[0] == target:
                raise _Interrupt()
        return tracer
    old = sys.gettrace()
    fired = False
    try:
        sys.settrace(tracer)
        try:
            _call(ev, metrics, s, stp['R'], stp.get('rt', 'nd'), 'session')
        finally:
            sys.settrace(old)
    except _Interrupt:
        fired = True
    except Exception:
        # a diagnostic fault may follow another one (EVICT) on the same session: whatever the call does
        # then is outside the property and decides nothing
        fired = False
    if fired:
        bump('diag.INTERRUPT')
    events.append([k, stp['s'], 'INTERRUPT', fired])


# ----------------------------------------------------------------------------- minimisation

def _exec_summary(plan):
    r = execute(plan, want_events=False)
    return r


def _same(plan, oracle):
    from . import isolate
    r = isolate.with_rundir(_exec_summary, (plan,), timeout=120)
    return r['violation'] is not None and r['violation']['oracle'] == oracle


def _drop_points(plan, ci, drop):
    """Delete interior points `drop` (set of indices) of pool curve ci, remapping breakpoints."""
    p = copy.deepcopy(plan)
    pts = p['pool'][ci]['points']
    n = len(pts)
    keep = [i for i in range(n) if i not in drop]
    remap = {old: new for new, old in enumerate(keep)}
    p['pool'][ci]['points'] = [pts[i] for i in keep]
    for stp in p['steps']:
        if 'R' in stp and p['sessions'][stp['s']]['curve'] == ci:
            stp['R'] = [remap[r] for r in stp['R'] if r in remap]
    return p


def _compact(plan):
    """Drop sessions without steps and curves without sessions."""
    p = copy.deepcopy(plan)
    used = sorted(set(s['s'] for s in p['steps']))
    smap = {old: new for new, old in enumerate(used)}
    p['sessions'] = [p['sessions'][i] for i in used]
    for s in p['steps']:
        s['s'] = smap[s['s']]
    cused = sorted(set(s['curve'] for s in p['sessions']))
    cmap = {old: new for new, old in enumerate(cused)}
    p['pool'] = [p['pool'][i] for i in cused]
    for s in p['sessions']:
        s['curve'] = cmap[s['curve']]
    return p


def shrink(plan, violation, deadline):
    import time
    from . import shrink as sh
    oracle = violation['oracle']

    def test(p):
        try:
            return _same(p, oracle)
        except Exception:
            return False
    cur = copy.deepcopy(plan)
    k = violation['step']
    if isinstance(k, int) and k + 1 < len(cur['steps']) and oracle != 'O6':
        cand = copy.deepcopy(cur)
        cand['steps'] = cand['steps'][:k + 1]
        if test(cand):
            cur = cand
    cur = sh.shrink_steps(cur, test, deadline)
    if cur['steps']:
        cand = _compact(cur)
        if test(cand):
            cur = cand
    # curve points
    for ci in range(len(cur['pool'])):
        interior = list(range(1, len(cur['pool'][ci]['points']) - 1))

        def rebuild(keep_interior, ci=ci, interior=interior):
            return _drop_points(cur, ci, set(interior) - set(keep_interior))
        if interior and time.time() < deadline:
            kept = sh.ddmin_list(interior, rebuild, test, deadline)
            cand = rebuild(kept)
            if test(cand):
                cur = cand
    # interior breakpoints of each step
    for si in range(len(cur['steps'])):
        stp = cur['steps'][si]
        if 'R' not in stp or len(stp['R']) <= 2 or time.time() > deadline:
            continue
        R = stp['R']

        def rebuild(inner, si=si, R=R):
            p = copy.deepcopy(cur)
            p['steps'][si]['R'] = [R[0]] + list(inner) + [R[-1]]
            return p
        inner = sh.ddmin_list(R[1:-1], rebuild, test, deadline)
        cand = rebuild(inner)
        if test(cand):
            cur = cand
    # simplify coordinates: round to few digits where the failure persists
    for ci in range(len(cur['pool'])):
        if time.time() > deadline:
            break
        cand = copy.deepcopy(cur)
        cand['pool'][ci]['points'] = [[fhex(float('%.3g' % unhex(x))), fhex(float('%.3g' % unhex(y)))]
                                      for x, y in cand['pool'][ci]['points']]
        xs = [unhex(x) for x, _ in cand['pool'][ci]['points']]
        if all(b > a for a, b in zip(xs, xs[1:])) and test(cand):
            cur = cand
    return cur


def describe(plan):
    """Human-readable decimal rendering added to replay files (the hex values stay authoritative)."""
    return [{'family': c.get('family'), 'points': [[unhex(x), unhex(y)] for x, y in c['points']]} for c in plan['pool']]


# ----------------------------------------------------------------------------- adapter

class Adapter(object):
    NAME = 'C15'
    traces = None
    RULE = ('Each evaluation is one simulated run: 1-4 caller sessions (curve x API/metric x cache handle) whose '
            'queries, MIP calls, grdp calls and faults (RESTART, SNAPSHOT/ROLLBACK, DUP, HANDOVER) are interleaved by a '
            'seeded scheduler; everything is drawn from one PRNG seeded by sha256(C15|VERIF_SEED|i). Distinct = distinct '
            'sha256 of the whole plan (curves + op list). Non-trivial = the run contains at least one query answered '
            'from a warm cache (partially or fully warm: the cache grew by fewer entries than the query has segments) '
            'and, in fault configurations, at least one fault that fired on a non-empty cache.')

    def prepare(self, tier):
        """Fixed warm-up, identical in check, digest and replay processes: imports and the JIT
        compilation of the numba kernel grdp reaches.  It calls no cache-taking function, so
        the process every run is forked from has never touched the code under test."""
        _libs()
        from . import budget
        budget.install()
        if Adapter.focus is None:
            from . import focus
            try:
                Adapter.focus = focus.compute()
            except Exception as e:
                Adapter.focus = {'changed': [], 'focus': [], 'error': str(e)[:200]}
        import kneeliverse.metrics as metrics
        a = np.array([[0.0, 1.0], [1.0, 3.0], [2.0, 2.0]])
        comp = getattr(metrics.residuals, '_compile_for_args', None)     # compile, do not execute
        if comp is not None:
            for yy in (a[:, 1], a[:, 1].copy(), a.astype(np.int64)[:, 1]):
                try:
                    comp(yy, a[:, 0] * 2.0)
                except Exception:
                    pass
        import gc
        gc.collect()
        gc.freeze()
        if tier == 'thorough':
            self.load_traces()

    def prepare_replay(self):
        self.prepare('quick')

    def load_traces(self):
        import os
        from . import core
        tr = []
        d = os.path.join(os.path.dirname(core.REPO_SRC.rstrip('/')), 'traces')
        if not os.path.isdir(d):
            d = '/repo/traces'
        for name in ('web0_reduced.csv', 'usr0.csv', 'web2.csv'):
            p = os.path.join(d, name)
            if os.path.exists(p):
                try:
                    arr = np.genfromtxt(p, delimiter=',')
                    arr = arr[np.all(np.isfinite(arr), axis=1)]
                    # strictly increasing x, y >= 0
                    keep = [0]
                    for i in range(1, len(arr)):
                        if arr[i, 0] > arr[keep[-1], 0]:
                            keep.append(i)
                    arr = arr[keep]
                    arr = arr[arr[:, 1] >= 0]
                    if len(arr) > 4:
                        tr.append((name, arr[:20000]))
                except Exception:
                    pass
        Adapter.traces = tr or None

    def worker_init(self):
        pass

    def config_of(self, i):
        m = i % 10
        if m in (0, 3, 6):
            return 'A'
        if m == 9:
            return 'C'
        return 'B'

    focus = None

    def make_plan(self, base, i, tier):
        from . import core
        rng = core.rng_for('C15', base, i)
        ch = (Adapter.focus or {}).get('changed') or []
        boost = set()
        if any(c in ('evaluation.mip',) for c in ch):
            boost.add('mip')
        if any(c.startswith('rdp.') for c in ch):
            boost.add('grdp')
        return gen_plan(rng, tier, self.config_of(i), Adapter.traces, tuple(sorted(boost)))

    def execute(self, plan, stats=None):
        return execute(plan, stats, want_events=False)

    def execute_full(self, plan):
        return execute(plan, None, want_events=True)

    def execute_isolated(self, plan):
        from . import isolate
        return isolate.with_rundir(execute, (plan, None, True, True), timeout=300)

    def shrink(self, plan, violation, deadline):
        return shrink(plan, violation, deadline)

    def sample_view(self, plan):
        p = copy.deepcopy(plan)
        for c in p['pool']:
            c['points'] = [[unhex(x), unhex(y)] for x, y in c['points'][:12]] + (['...'] if len(c['points']) > 12 else [])
        p['steps'] = p['steps'][:25] + (['...'] if len(p['steps']) > 25 else [])
        return p

    def finding_key(self, violation, plan):
        return 'oracle=%s' % violation['oracle']

    def evidence_extra(self, agg):
        return {'change_directed_focus': Adapter.focus}

    def describe(self, plan):
        return describe(plan)
