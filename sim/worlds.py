"""World seams for C20: buffer delivery (layouts), poisoned allocator, purity monitor at every public
call boundary, canonical encoding of results for bit-exact comparison between worlds."""
import math
import random
import re
import struct
import sys
import types

import numpy as np

from .core import unhex

LAYOUTS = ('C', 'F', 'view', 'neg', 'int64', 'Fview', 'int64+F', 'int64+view', 'int64+Fview')
_ADDR = re.compile(r'0x[0-9a-fA-F]+')


# ----------------------------------------------------------------------------- delivery

def deliver(values, layout, salt):
    """Return an ndarray holding `values` (a C float64 2-D or 1-D array) in the given layout.  The
    values are identical; only strides / order / dtype / base differ."""
    a = np.array(values, dtype=np.float64, order='C')
    rr = random.Random(salt)
    if layout.startswith('int64+'):
        # dtype and memory layout are independent: the integer representation in another layout
        base = deliver(values, layout[6:], salt)
        if layout[6:] in ('C', 'F'):
            return base.astype(np.int64)                       # keeps the order ('K')
        # rebuild the same window / reversed view over an integer buffer
        root = base
        while root.base is not None:
            root = root.base
        iroot = root.astype(np.int64) if np.all(np.isfinite(root)) and np.all(np.abs(root) < 2 ** 62) else None
        if iroot is None:
            iroot = np.where(np.isfinite(root) & (np.abs(root) < 2 ** 62), root, 7).astype(np.int64)
        v = _same_view(iroot, root, base)
        assert v.shape == a.shape and np.array_equal(v.astype(float), a)
        return v
    if layout == 'C':
        return a
    if layout == 'F':
        return np.asfortranarray(a)
    if layout == 'view':
        # a strided window inside a larger garbage-filled array
        if a.ndim == 2:
            r0, c0 = rr.randint(0, 3), rr.randint(0, 2)
            rs, cs = rr.choice([1, 2, 3]), rr.choice([1, 2])
            big = np.full((r0 + rs * a.shape[0] + 2, c0 + cs * a.shape[1] + 2), 7.7e77)
            v = big[r0:r0 + rs * a.shape[0]:rs, c0:c0 + cs * a.shape[1]:cs]
        else:
            r0 = rr.randint(0, 3)
            rs = rr.choice([2, 3])
            big = np.full((r0 + rs * a.shape[0] + 2,), 7.7e77)
            v = big[r0:r0 + rs * a.shape[0]:rs]
        v[...] = a
        assert v.shape == a.shape
        return v
    if layout == 'Fview':
        # a window of a larger Fortran-ordered array (neither C- nor F-contiguous): what a row range of
        # DataFrame.to_numpy() or np.array([x, y]).T[a:b] is
        if a.ndim == 2:
            r0, c0 = rr.randint(1, 3), rr.randint(0, 1)
            big = np.asfortranarray(np.full((r0 + a.shape[0] + 2, c0 + a.shape[1] + rr.randint(0, 1)), 7.7e77))
            v = big[r0:r0 + a.shape[0], c0:c0 + a.shape[1]]
        else:
            big = np.full((a.shape[0] + 3,), 7.7e77)
            v = big[1:1 + a.shape[0]]
        v[...] = a
        assert v.shape == a.shape
        return v
    if layout == 'neg':
        big = np.array(a[::-1], order='C')
        v = big[::-1]
        return v
    if layout == 'int64':
        return a.astype(np.int64)
    raise ValueError(layout)


def _same_view(iroot, root, view):
    """The view of `iroot` (same shape, dtype size and strides as `root`) that corresponds to `view` of `root`."""
    off = view.__array_interface__['data'][0] - root.__array_interface__['data'][0]
    return np.ndarray(shape=view.shape, dtype=iroot.dtype, buffer=iroot, offset=off if off >= 0 else 0, strides=view.strides) \
        if off >= 0 else None


def integral(values, bound=2 ** 20):
    a = np.asarray(values, dtype=float)
    return bool(np.all(np.isfinite(a)) and np.all(a == np.round(a)) and np.all(np.abs(a) < bound))


# ----------------------------------------------------------------------------- allocator

class PoisonNumpy(types.ModuleType):
    """Stands in for the name `np` inside the package's modules: `empty` / `empty_like` return
    arrays pre-filled with seeded garbage; everything else is NumPy's."""

    def __init__(self, seed, counter):
        types.ModuleType.__init__(self, 'numpy')
        object.__setattr__(self, '_rr', random.Random(seed))
        object.__setattr__(self, '_counter', counter)

    def __getattr__(self, name):
        return getattr(np, name)

    def _poison(self, arr, site):
        c = object.__getattribute__(self, '_counter')
        c[site] = c.get(site, 0) + 1
        rr = object.__getattribute__(self, '_rr')
        if arr.size == 0:
            return arr
        k = rr.randrange(4)
        try:
            if arr.dtype.kind == 'f':
                fi = np.finfo(arr.dtype)
                arr[...] = [float('nan'), float('inf'), float(fi.min) * 0.99, float(fi.max) * 0.5][k]
            elif arr.dtype.kind in 'iu':
                # garbage that fits the dtype (int8 ... uint64): near the extremes and an odd mid-range value
                ii = np.iinfo(arr.dtype)
                arr[...] = [ii.max - 12345 % max(ii.max, 1), ii.min + 7 if ii.min < 0 else ii.max // 3,
                            ii.max // 2 + 3, (ii.min // 3 - 37) if ii.min < 0 else ii.max - 5][k]
            elif arr.dtype.kind == 'b':
                arr[...] = True
        except Exception:
            pass          # the proxy must never raise into the library: unknown dtypes are left as allocated
        return arr

    def empty(self, *a, **k):
        site = sys._getframe(1).f_code.co_name
        return self._poison(np.empty(*a, **k), 'empty@' + site)

    def empty_like(self, *a, **k):
        site = sys._getframe(1).f_code.co_name
        return self._poison(np.empty_like(*a, **k), 'empty_like@' + site)


def package_modules():
    return [sys.modules[n] for n in sorted(sys.modules)
            if n.startswith('kneeliverse.') and sys.modules[n] is not None]


def dispatcher_names():
    """(modules that define numba dispatchers, every global/attribute name their Python bodies reference).
    numba resolves those names lazily, at the first call with a new signature — possibly after the harness
    has installed its seams — and cannot type a Python wrapper or a proxy module, so they keep their
    original bindings."""
    mods = set()
    names = set()

    def walk(code):
        names.update(code.co_names)
        for c in code.co_consts:
            if isinstance(c, types.CodeType):
                walk(c)
    for mod in package_modules():
        for _, obj in sorted(vars(mod).items()):
            # (a numba dispatcher has both .py_func and .__wrapped__; a harness wrapper has .__wrapped__ = the dispatcher)
            o = obj if hasattr(obj, 'py_func') else getattr(obj, '__wrapped__', obj)
            if hasattr(o, 'py_func') and getattr(o.py_func, '__module__', None) == mod.__name__:
                mods.add(mod.__name__)
                walk(o.py_func.__code__)
    return mods, names


def install_poison(seed, counter):
    proxy = PoisonNumpy(seed, counter)
    jit_mods, _ = dispatcher_names()
    for mod in package_modules():
        if mod.__name__ in jit_mods:
            continue          # a module with numba-compiled functions keeps the real numpy (numba resolves `np` itself)
        for name, obj in sorted(vars(mod).items()):
            if obj is np or isinstance(obj, PoisonNumpy):
                setattr(mod, name, proxy)                 # `import numpy as np`, `import numpy`, any alias
            elif obj is np.empty:
                setattr(mod, name, proxy.empty)           # `from numpy import empty`
            elif obj is np.empty_like:
                setattr(mod, name, proxy.empty_like)
    return proxy


# ----------------------------------------------------------------------------- purity monitor

class ArgMutated(Exception):
    def __init__(self, fn, arg, how):
        Exception.__init__(self, '%s modified its argument %s (%s)' % (fn, arg, how))
        self.fn = fn
        self.arg = arg
        self.how = how


def snapshot(v, depth=0):
    if isinstance(v, np.ndarray):
        return ('nd', v.dtype.str, v.shape, v.strides, v.tobytes(), bool(v.flags.writeable))
    if isinstance(v, (list, tuple)) and depth < 4:
        return ('seq', type(v).__name__, tuple(snapshot(x, depth + 1) for x in v))
    if isinstance(v, dict):
        return ('dict',)          # the cache parameter is the one documented in/out argument
    if isinstance(v, (int, float, bool, str, type(None), np.generic)):
        return ('s', repr(v))
    return ('o',)


class Monitor(object):
    """Wraps every public module-level function of the package (names not starting with '_',
    numba dispatchers included) for client calls and intra-package calls alike."""

    def __init__(self):
        self.violations = []
        self.calls = {}
        self.installed = False
        self.depth = 0

    def wrap(self, qual, fn):
        mon = self

        def wrapper(*args, **kwargs):
            mon.calls[qual] = mon.calls.get(qual, 0) + 1
            before = [snapshot(a) for a in args]
            kbefore = {k: snapshot(v) for k, v in kwargs.items()}
            try:
                return fn(*args, **kwargs)
            finally:
                for i, a in enumerate(args):
                    if before[i][0] in ('nd', 'seq') and snapshot(a) != before[i]:
                        mon.violations.append((qual, 'arg%d' % i, _how(before[i], snapshot(a))))
                for k, v in kwargs.items():
                    if kbefore[k][0] in ('nd', 'seq') and snapshot(v) != kbefore[k]:
                        mon.violations.append((qual, k, _how(kbefore[k], snapshot(v))))
        try:
            import functools
            functools.update_wrapper(wrapper, getattr(fn, 'py_func', fn))      # __name__, __qualname__, __doc__, __module__, __dict__
            for a_ in ('__defaults__', '__kwdefaults__'):
                try:
                    setattr(wrapper, a_, getattr(getattr(fn, 'py_func', fn), a_))
                except Exception:
                    pass
        except Exception:
            wrapper.__name__ = getattr(fn, '__name__', 'wrapped')
        wrapper.__wrapped__ = fn
        wrapper._kneesim = True
        return wrapper

    def install(self):
        if self.installed:
            return
        originals = {}
        _, protected = dispatcher_names()
        self.protected = sorted(protected)
        for mod in package_modules():
            short = mod.__name__.split('.', 1)[1]
            for name, obj in sorted(vars(mod).items()):
                if name.startswith('_') or getattr(obj, '_kneesim', False):
                    continue
                if name in protected:
                    continue      # referenced from numba-compiled code: must keep its original binding
                is_fn = isinstance(obj, types.FunctionType) and obj.__module__ == mod.__name__
                is_disp = hasattr(obj, 'py_func') and getattr(obj.py_func, '__module__', None) == mod.__name__
                if is_fn or is_disp:
                    w = self.wrap(short + '.' + name, obj)
                    originals[id(obj)] = (obj, w)
                    setattr(mod, name, w)
        # names bound by `from kneeliverse.x import f` in other package modules call the same function:
        # rebind them to the wrapper too, so public-to-public calls stay monitored whatever the import style
        for mod in package_modules():
            for name, obj in sorted(vars(mod).items()):
                hit = originals.get(id(obj))
                if hit is not None and hit[0] is obj and name not in protected:
                    setattr(mod, name, hit[1])
        self.installed = True


def _how(b, a):
    if b[0] == 'nd' and a[0] == 'nd':
        if b[1:4] != a[1:4]:
            return 'dtype/shape/strides changed'
        if b[5:] != a[5:]:
            return 'writeable flag changed'
        return 'array contents changed'
    return 'sequence contents changed'


def public_functions():
    out = []
    for mod in package_modules():
        short = mod.__name__.split('.', 1)[1]
        for name, obj in sorted(vars(mod).items()):
            if name.startswith('_'):
                continue
            o = getattr(obj, '__wrapped__', obj)
            is_fn = isinstance(o, types.FunctionType) and o.__module__ == mod.__name__
            is_disp = hasattr(o, 'py_func') and getattr(o.py_func, '__module__', None) == mod.__name__
            if is_fn or is_disp:
                out.append(short + '.' + name)
    return out


# ----------------------------------------------------------------------------- result encoding

def _fb(x):
    x = float(x)
    if x != x:
        return 'nan'
    # -0.0 and 0.0 are the same value (an int64 representation cannot even hold the former)
    return struct.pack('<d', x + 0.0).hex()


def enc(v, depth=0):
    """Canonical, picklable, comparable encoding of a result *by value*: numbers as float64 bit
    patterns (all NaNs equal), arrays as shape + bits, containers recursively."""
    if v is None:
        return ('none',)
    import enum as _enum
    if isinstance(v, _enum.Enum):
        return ('enum', type(v).__name__, v.name)
    if isinstance(v, (bool, np.bool_)):
        return ('s', _fb(1.0 if v else 0.0))
    if isinstance(v, (int, float, np.integer, np.floating)):
        try:
            return ('s', _fb(v))
        except OverflowError:
            return ('big', repr(int(v)))
    if isinstance(v, np.ndarray):
        if v.dtype.kind in 'biuf':
            try:
                f = v.astype(np.float64)
            except Exception:
                return ('repr', _ADDR.sub('0x', repr(v))[:500])
            return ('nd', tuple(v.shape), tuple(_fb(x) for x in f.ravel(order='C')))
        if v.dtype.kind == 'O' and depth < 4:
            return ('ndo', tuple(v.shape), tuple(enc(x, depth + 1) for x in v.ravel(order='C')))
        return ('repr', _ADDR.sub('0x', repr(v))[:500])
    if isinstance(v, (list, tuple)) and depth < 5:
        return ('t', tuple(enc(x, depth + 1) for x in v))
    if isinstance(v, dict) and depth < 5:
        return ('d', tuple((str(k), enc(v[k], depth + 1)) for k in sorted(v, key=str)))
    if callable(v) and not isinstance(v, type):
        f = v
        for _ in range(5):
            f = getattr(f, '__wrapped__', f)
        f = getattr(f, 'py_func', f)
        return ('fn', '%s.%s' % (getattr(f, '__module__', '?'), getattr(f, '__qualname__', getattr(f, '__name__', '?'))))
    fields = object_fields(v)
    if fields is not None and depth < 5:
        return ('obj', type(v).__name__, tuple((k, enc(fields[k], depth + 1)) for k in sorted(fields)))
    if isinstance(v, (set, frozenset)) and depth < 5:
        return ('set', tuple(sorted((enc(x, depth + 1) for x in v), key=repr)))
    return ('repr', type(v).__name__ + ':' + _ADDR.sub('0x', repr(v))[:300])


def object_fields(v):
    """Field dict of a plain result object (dataclass, namedtuple-like, object with __dict__ / __slots__), else None."""
    import dataclasses
    import enum
    if isinstance(v, (enum.Enum, type, types.ModuleType, types.FunctionType, types.BuiltinFunctionType)) or v is None:
        return None
    if isinstance(v, (str, bytes, int, float, complex, bool, np.generic, np.ndarray, list, tuple, dict, set, frozenset)):
        return None
    try:
        if dataclasses.is_dataclass(v):
            return {f.name: getattr(v, f.name) for f in dataclasses.fields(v)}
        if hasattr(v, '__dict__') and isinstance(v.__dict__, dict):
            return dict(v.__dict__)
        if hasattr(v, '__slots__'):
            return {k: getattr(v, k) for k in v.__slots__ if hasattr(v, k)}
    except Exception:
        return None
    return None


def kind_of(v):
    """dtype-kind signature of a result (compared only when no int64 delivery is involved)."""
    if isinstance(v, np.ndarray):
        return 'nd:' + v.dtype.kind
    if isinstance(v, (list, tuple)):
        return type(v).__name__ + '(' + ','.join(kind_of(x) for x in v[:6]) + ')'
    if isinstance(v, (bool, np.bool_)):
        return 'b'
    if isinstance(v, (int, np.integer)):
        return 'i'
    if isinstance(v, (float, np.floating)):
        return 'f'
    return type(v).__name__


def enc_exc(e, type_only=False):
    if type_only:
        return ('exc', type(e).__name__)
    return ('exc', type(e).__name__, _ADDR.sub('0x', str(e))[:300])


_ARITY = re.compile(r'takes .* positional|missing .* required|unexpected keyword|got multiple values|takes no arguments')
_MODATTR = re.compile(r"^module '[^']+' has no attribute")


def link_witness(e):
    """Is this exception, escaping a public function, a witness that clause (d) is false?"""
    if isinstance(e, NameError) and not isinstance(e, UnboundLocalError):
        return True
    if isinstance(e, AttributeError) and _MODATTR.search(str(e)):
        return True
    if isinstance(e, TypeError) and _ARITY.search(str(e)):
        return True
    return False


def _delivered_ids(args, kw):
    ids = set()
    stack = list(args) + list(kw.values())
    n = 0
    while stack and n < 20000:
        o = stack.pop()
        n += 1
        ids.add(id(o))
        if isinstance(o, (list, tuple, set, frozenset)):
            stack.extend(o)
        elif isinstance(o, dict):
            stack.extend(o.keys())
            stack.extend(o.values())
    return ids


def _entry_conforms(f, args, kw):
    """Every list / tuple the caller handed to the entry function went to a parameter annotated as one."""
    import inspect
    try:
        sig = inspect.signature(f)
        ba = sig.bind(*args, **kw)
    except (TypeError, ValueError):
        return False
    for name, v in ba.arguments.items():
        if isinstance(v, (list, tuple)):
            par = sig.parameters[name]
            if par.kind in (par.VAR_POSITIONAL, par.VAR_KEYWORD):
                return False
            ann = par.annotation
            ann = '' if ann is inspect.Parameter.empty else (ann if isinstance(ann, str) else getattr(ann, '__name__', '') + ' ' + str(ann))
            if not re.search(r'list|tuple|sequence|iterable', ann, re.I):
                return False
    return True


def object_attr_witness(e, args, kw, f=None):
    """AttributeError on an object the package built itself (not one the caller delivered, nor an element of
    one), raised by an attribute access written in package code: the package handed one of its own functions
    something that function cannot use - a code path failing with AttributeError whatever the caller does.
    Deliberately narrow: a missing attribute on anything the caller passed in is never reported (it may be the
    caller's misuse), nor is one raised inside a dependency, nor anything at all when the caller handed a list or
    tuple to a parameter of the entry function that is not annotated as one (what the package derives from such
    an argument - a slice, a copy - is still the caller's choice of type)."""
    if not isinstance(e, AttributeError) or _MODATTR.search(str(e)):
        return False
    if getattr(e, 'name', None) is None:
        return False
    tb = e.__traceback__
    last = None
    while tb is not None:
        last = tb
        tb = tb.tb_next
    if last is None or 'kneeliverse' not in last.tb_frame.f_code.co_filename:
        return False
    obj = getattr(e, 'obj', None)
    if obj is None or isinstance(obj, (types.ModuleType, type)):
        return False
    if id(obj) in _delivered_ids(args, kw):
        return False
    return f is not None and _entry_conforms(f, args, kw)


def innermost_package_frame(e):
    tb = e.__traceback__
    site = None
    while tb is not None:
        fn = tb.tb_frame.f_code.co_filename
        if 'kneeliverse' in fn:
            site = (fn.rsplit('/', 1)[-1][:-3], tb.tb_frame.f_code.co_name)
        tb = tb.tb_next
    return site


# ----------------------------------------------------------------------------- clock, logging, process identity

class SkewedTime(types.ModuleType):
    """Stands in for the name bound to the `time` module inside package modules: the clock jumps forward by a
    drawn amount (minutes to days) whenever the simulator says so.  Everything else is the real module."""

    def __init__(self):
        types.ModuleType.__init__(self, 'time')
        object.__setattr__(self, 'offset', 0.0)

    def __getattr__(self, name):
        import time as _t
        return getattr(_t, name)

    def jump(self, seconds):
        object.__setattr__(self, 'offset', object.__getattribute__(self, 'offset') + float(seconds))

    def _off(self):
        return object.__getattribute__(self, 'offset')

    def time(self):
        import time as _t
        return _t.time() + self._off()

    def monotonic(self):
        import time as _t
        return _t.monotonic() + self._off()

    def perf_counter(self):
        import time as _t
        return _t.perf_counter() + self._off()

    def time_ns(self):
        import time as _t
        return _t.time_ns() + int(self._off() * 1e9)

    def monotonic_ns(self):
        import time as _t
        return _t.monotonic_ns() + int(self._off() * 1e9)

    def perf_counter_ns(self):
        import time as _t
        return _t.perf_counter_ns() + int(self._off() * 1e9)

    def process_time(self):
        import time as _t
        return _t.process_time() + self._off()

    def localtime(self, secs=None):
        import time as _t
        return _t.localtime(self.time() if secs is None else secs)

    def gmtime(self, secs=None):
        import time as _t
        return _t.gmtime(self.time() if secs is None else secs)


def _skewed_datetime_module(clock):
    """A stand-in for the `datetime` module whose datetime.now() / utcnow() / today() and date.today() follow
    the skewed clock."""
    import datetime as _dt

    class datetime(_dt.datetime):
        @classmethod
        def now(cls, tz=None):
            return _dt.datetime.now(tz) + _dt.timedelta(seconds=clock._off())

        @classmethod
        def utcnow(cls):
            return _dt.datetime.utcnow() + _dt.timedelta(seconds=clock._off())

        @classmethod
        def today(cls):
            return _dt.datetime.today() + _dt.timedelta(seconds=clock._off())

    class date(_dt.date):
        @classmethod
        def today(cls):
            return (_dt.datetime.today() + _dt.timedelta(seconds=clock._off())).date()

    m = types.ModuleType('datetime')
    for k in dir(_dt):
        if not k.startswith('__'):
            setattr(m, k, getattr(_dt, k))
    m.datetime = datetime
    m.date = date
    return m, datetime, date


def install_clock():
    """Rebind `time` (module) and directly imported time functions in package modules to the skewed clock.
    Returns the clock, or None if no package module uses the time module (the pinned tree: none does)."""
    import datetime as _dtmod
    import time as _t
    clock = SkewedTime()
    dt_proxy = _skewed_datetime_module(clock)
    used = False
    jit_mods, _ = dispatcher_names()
    for mod in package_modules():
        if mod.__name__ in jit_mods:
            continue
        for name, obj in sorted(vars(mod).items()):
            if obj is _t:
                setattr(mod, name, clock)
                used = True
            elif any(obj is f_ for f_ in (_t.time, _t.monotonic, _t.perf_counter, _t.process_time, _t.time_ns, _t.monotonic_ns,
                                          _t.perf_counter_ns, _t.localtime, _t.gmtime)):      # identity: globals may be arrays
                setattr(mod, name, getattr(clock, obj.__name__))
                used = True
            elif obj is _dtmod:
                setattr(mod, name, dt_proxy[0])
                used = True
            elif obj is _dtmod.datetime:
                setattr(mod, name, dt_proxy[1])
                used = True
            elif obj is _dtmod.date:
                setattr(mod, name, dt_proxy[2])
                used = True
    return clock if used else None


def enable_debug_logging():
    """The caller has switched the package's loggers to DEBUG (with a handler that discards the records)."""
    import logging
    logging.disable(logging.NOTSET)
    root = logging.getLogger('kneeliverse')
    root.setLevel(logging.DEBUG)
    root.propagate = False
    if not root.handlers:
        root.addHandler(logging.NullHandler())
    for name in list(logging.root.manager.loggerDict):
        if name.startswith('kneeliverse.'):
            lg = logging.getLogger(name)
            lg.setLevel(logging.DEBUG)
