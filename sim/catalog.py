"""Caller programs for C20: clients written against the public API only.

A program is a list of steps {'fn': 'module.func' | 'caller.<op>', 'args': [...], 'kw': {...}}.
Argument specs (JSON-able):
  {'pool': i}                 shared pool object i (delivered in its world's layout)
  {'res': j, 'get': [..]}     result of this client's step j (optionally an element path)
  {'f': hex} / int / bool / None / str      literals
  {'list': [spec, ...]}       Python list built by the caller
  {'enum': 'rdp.Order.area'}  attribute path below kneeliverse
  {'fn': 'clustering.single_linkage'}   a public function passed as a callable
  {'col': spec, 'c': 0|1}     caller-side column view  a[:, c]
  {'take': [a, idx]}          caller-side fancy index  a[idx]
  {'slice': [a, lo, hi]}      caller-side slice        a[lo:hi]
  {'row': [a, i]}             caller-side row          a[i]
Caller-side ops are what any user of the library does between calls; they are evaluated
identically in every world.
"""
from .core import fhex

METRICS = ['r2', 'rmspe', 'rmsle', 'rpd', 'smape']
ORDERS = ['triangle', 'area', 'segment']
CLUSTERINGS = ['single_linkage', 'complete_linkage', 'centroid_linkage', 'average_linkage']
RANKINGS = ['left', 'linear', 'right', 'hull']


def P(i):
    return {'pool': i}


def R(j, *path):
    return {'res': j, 'get': list(path)}


def F(x):
    return {'f': fhex(x)}


def E(path):
    return {'enum': path}


def FN(path):
    return {'fn': path}


def COL(a, c):
    return {'col': a, 'c': c}


def TAKE(a, idx):
    return {'take': [a, idx]}


def SL(a, lo, hi):
    return {'slice': [a, lo, hi]}


def ROW(a, i):
    return {'row': [a, i]}


class Prog(object):
    def __init__(self, kind):
        self.kind = kind
        self.steps = []

    def call(self, fn, *args, **kw):
        self.steps.append({'fn': fn, 'args': list(args), 'kw': kw})
        return len(self.steps) - 1

    def out(self):
        return {'kind': self.kind, 'steps': self.steps}


class Ctx(object):
    """Generation context: the pool (so programs can pick shared objects) and the PRNG."""

    def __init__(self, rng, pool):
        self.rng = rng
        self.pool = pool

    def curves(self):
        return [i for i, o in enumerate(self.pool) if o['kind'] == 'curve']

    def of_kind(self, kind, curve=None):
        return [i for i, o in enumerate(self.pool) if o['kind'] == kind and (curve is None or o.get('curve') == curve)]

    def n(self, ci):
        return len(self.pool[ci]['points'])


def _simplify(ctx, p, ci):
    rng = ctx.rng
    n = ctx.n(ci)
    pts = P(ci)
    which = rng.choice(['rdp', 'grdp', 'grdp', 'rdp_fixed', 'mp_grdp', 'min_point_rdp', 'min_point_rdp'])
    if n > 600:
        which = 'rdp_fixed'      # the other variants are quadratic or worse, or may keep every point
    cost = E('metrics.Metrics.' + rng.choice(METRICS))
    t = F(rng.choice([0.5, 0.1, 0.05, 0.01, 0.001, 0.001, 0.0]))
    if 'r2' in cost['enum']:
        t = F(rng.choice([0.5, 0.8, 0.9, 0.95, 0.99, 1.0]))
    dist = E('rdp.Distance.shortest') if rng.random() < 0.93 else E('rdp.Distance.perpendicular')
    if rng.random() < 0.03:
        dist = None          # the simplifiers document a fall-back to the shortest distance for any other value
    order = E('rdp.Order.' + rng.choice(ORDERS))
    if which == 'rdp':
        # plain rdp can fail to terminate on exact collinear runs / y == 0 chords (C01 territory): the
        # loop budget turns that into the value DIVERGED, identical in every world
        if t == F(0.0):
            t = F(0.001)      # plain rdp never stops with a zero threshold on a non-R2 metric (C01's business): no point burning the budget
        return p.call('rdp.rdp', pts, t=t, distance=dist, cost=cost)
    if which == 'grdp':
        return p.call('rdp.grdp', pts, t=t, distance=dist, cost=cost, order=order)
    if which == 'rdp_fixed':
        return p.call('rdp.rdp_fixed', pts, length=rng.choice([2, rng.randint(3, max(3, min(n, 12))), n if n <= 200 else 12]), distance=dist, order=order)
    if which == 'mp_grdp':
        return p.call('rdp.mp_grdp', pts, t=t, min_points=rng.randint(3, max(3, min(n, 12))), distance=dist, cost=cost, order=order)
    tl = ctx.of_kind('tlist')
    if tl and rng.random() < 0.7:
        return p.call('rdp.min_point_rdp', pts, t=P(rng.choice(tl)), min_points=rng.randint(3, max(3, min(n, 10))))
    return p.call('rdp.min_point_rdp', pts, min_points=rng.randint(3, max(3, min(n, 10))))


def _detect(ctx, p, pts):
    rng = ctx.rng
    which = rng.choice(['curvature', 'dfdt', 'menger', 'lmethod', 'kneedle', 'kneedle.knees', 'zmethod', 'zmethod2', 'single'])
    t1 = F(rng.choice([0.001, 0.01, 0.1, 0.0, 0.5]))
    if which in ('curvature', 'dfdt'):
        return p.call(which + '.multi_knee', pts, t1, rng.choice([3, 4]))
    if which == 'menger':
        return p.call('menger.multi_knee', pts, t1, rng.choice([4, 5]))
    if which == 'lmethod':
        return p.call('lmethod.multi_knee', pts, t1, rng.choice([4, 6]))
    if which == 'kneedle':
        return p.call('kneedle.multi_knee', pts, t1, rng.choice([3, 3, 4, 6]))
    if which == 'kneedle.knees':
        return p.call('kneedle.knees', pts, F(rng.choice([1.0, 1.0, 0.0, 0.5, 3.0])), F(rng.choice([0.5, 1.0, 2.0])),
                      E('kneedle.PeakDetection.' + rng.choice(['Kneedle', 'ZScore', 'Significant', 'All'])))
    if which == 'zmethod':
        return p.call('zmethod.knees', pts, dx=F(rng.choice([0.05, 0.1])), dy=F(rng.choice([0.05, 0.1])),
                      dz=F(rng.choice([0.05, 0.2])))
    if which == 'zmethod2':
        return p.call('zmethod.knees2', pts, dx=F(0.05), dy=F(0.05), out=E('zmethod.Outlier.' + rng.choice(['zscore', 'iqr', 'hampel'])))
    # single-knee detectors wrapped by the generic multi_knee with a public callable
    det = rng.choice(['curvature.knee', 'dfdt.knee', 'menger.knee', 'lmethod.knee', 'kneedle.knee'])
    return p.call('multi_knee.multi_knee', FN(det), pts, t1, rng.choice([3, 4, 5, 1]),
                  E('metrics.Metrics.' + rng.choice(['r2', 'smape', 'rmspe'])))


def pipeline(ctx):
    """The demo pipeline: simplify -> reduced curve -> multi-knee -> filters -> mapping -> scores."""
    rng = ctx.rng
    p = Prog('pipeline')
    ci = rng.choice(ctx.curves())
    pts = P(ci)
    s0 = _simplify(ctx, p, ci)
    reduced, removed = R(s0, 0), R(s0, 1)
    sibs = [j for j in ctx.curves() if j != ci and (ctx.pool[j].get('sibling') == ci or ctx.pool[ci].get('sibling') == j
                                                    or (ctx.pool[j].get('sibling') is not None and ctx.pool[j].get('sibling') == ctx.pool[ci].get('sibling')))]
    if sibs and rng.random() < 0.5:
        # the same call on a look-alike curve right afterwards (always compared with a pristine process)
        import copy as _copy
        again = _copy.deepcopy(p.steps[s0])
        again['args'][0] = P(rng.choice(sibs))
        again['probe'] = True
        p.steps.append(again)
    s1 = p.call('caller.take', pts, reduced)
    pr = R(s1)
    if rng.random() < 0.3:
        p.call('rdp.compute_removed_points', pts, reduced)
    s2 = _detect(ctx, p, pr)
    k = R(s2)
    if rng.random() < 0.8:
        s3 = p.call('postprocessing.filter_worst_knees', pr, k)
        k = R(s3)
    r = rng.random()
    if r < 0.4:
        k = R(p.call('postprocessing.filter_corner_knees', pr, k, t=F(rng.choice([0.33, 0.2, 0.5]))))
    elif r < 0.55:
        p.call('postprocessing.select_corner_knees', pr, k, t=F(0.33))
    r = rng.random()
    if r < 0.55:
        k = R(p.call('postprocessing.filter_clusters', pr, k, FN('clustering.' + rng.choice(CLUSTERINGS)),
                     F(rng.choice([0.01, 0.05, 0.2])), E('knee_ranking.ClusterRanking.' + rng.choice(RANKINGS))))
    elif r < 0.7:
        k = R(p.call('postprocessing.filter_clusters_corners', pr, k, FN('clustering.' + rng.choice(CLUSTERINGS)),
                     F(rng.choice([0.01, 0.05, 0.2]))))
    r = rng.random()
    if r < 0.4:
        final = R(p.call('rdp.mapping', k, reduced, removed))
    elif r < 0.7:
        final = R(p.call('postprocessing.add_points_even', pts, reduced, k, removed, tx=F(rng.choice([0.05, 0.1])),
                         ty=F(rng.choice([0.05, 0.1])), extremes=rng.random() < 0.3))
    else:
        m = R(p.call('rdp.mapping', k, reduced, removed))
        final = R(p.call('postprocessing.add_points_even_knees', pts, m, tx=F(rng.choice([0.05, 0.02, 0.2])), ty=F(rng.choice([0.05, 0.01])),
                         extremes=rng.random() < 0.15))
    ex = ctx.of_kind('expected', ci)
    if ex and rng.random() < 0.7:
        e = P(rng.choice(ex))
        strat = E('evaluation.Strategy.' + rng.choice(['knees', 'expected', 'best', 'worst']))
        for fn in rng.sample(['mae', 'mse', 'rmse', 'rmspe'], rng.randint(1, 3)):
            p.call('evaluation.' + fn, pts, final, e, strat)
        c = p.call('evaluation.cm', pts, final, e, t=F(rng.choice([0.01, 0.05])))
        for fn in rng.sample(['accuracy', 'f1score', 'mcc'], rng.randint(1, 3)):
            p.call('evaluation.' + fn, R(c))
    if rng.random() < 0.5:
        p.call('evaluation.compute_global_rmse', pts, reduced)
        p.call('evaluation.compute_global_cost', pts, reduced, E('metrics.Metrics.' + rng.choice(METRICS)))
    if rng.random() < 0.3:
        p.call('evaluation.mip', pts, reduced)
    if rng.random() < 0.3:
        p.call('knee_ranking.slope_ranking', pts, final, F(rng.choice([0.8, 0.9])))
    if rng.random() < 0.25:
        p.call('evaluation.' + rng.choice(['accuracy_knee', 'accuracy_trace']), pts, final)
    return p.out()


def zclient(ctx):
    rng = ctx.rng
    p = Prog('zclient')
    ci = rng.choice(ctx.curves())
    pts = P(ci)
    kw = dict(dx=F(rng.choice([0.01, 0.05, 0.1, 0.2])), dy=F(rng.choice([0.01, 0.05, 0.1])), dz=F(rng.choice([0.05, 0.1, 0.5])))
    g = p.call('zmethod.getPoints', pts, **kw)
    k = p.call('zmethod.knees', pts, **kw)
    p.call('zmethod.map_index', COL(pts, 0), R(g))
    if rng.random() < 0.5:
        p.call('zmethod.getPoints', pts, plot=True, **kw)
    if rng.random() < 0.5:
        p.call('zmethod.knees2', pts, dx=kw['dx'], dy=kw['dy'], out=E('zmethod.Outlier.' + rng.choice(['zscore', 'iqr', 'hampel'])))
    if rng.random() < 0.5:
        p.call('zmethod.knees', pts, x_max=ctx.n(ci) * 2, y_range={'list': [F(2.0), F(0.0)]}, **kw)
    p.call('postprocessing.filter_worst_knees', pts, R(k))
    return p.out()


def primitives(ctx):
    """Direct calls of the small public helpers on shared pool objects."""
    rng = ctx.rng
    p = Prog('primitives')
    ci = rng.choice(ctx.curves())
    n = ctx.n(ci)
    pts = P(ci)
    x, y = COL(pts, 0), COL(pts, 1)
    if rng.random() < 0.3:
        x = {'col': pts, 'c': 0, 'int_in_sim': True}
    idxs = ctx.of_kind('idx', ci)
    knees = P(rng.choice(idxs)) if idxs else None
    others = [c for c in ctx.curves() if ctx.n(c) == n and c != ci]
    yhat = COL(P(rng.choice(others)), 1) if others and rng.random() < 0.5 else None
    for _ in range(rng.randint(3, 14)):
        g = rng.choice(['metrics', 'lf_coef', 'lf_misc', 'lf_dist', 'ranking', 'cluster', 'hull', 'menger', 'neigh', 'partial',
                        'pp', 'rdp_misc', 'detect1', 'lmethod', 'dfdt', 'legacy'])
        a = rng.randrange(0, max(1, n - 3))
        b = rng.randint(min(a + 2, n - 1), n - 1)
        if b - a > 200:
            b = a + rng.randint(2, 200)      # the detectors are quadratic or worse: long traces are analysed in windows
        seg = SL(pts, a, b + 1)
        if g == 'metrics':
            coef = R(p.call('linear_fit.linear_fit', x, y))
            yh = yhat if yhat is not None else R(p.call('linear_fit.linear_transform', x, coef))
            for fn in rng.sample(['r2', 'rmse', 'rmsle', 'rmspe', 'rpd', 'residuals', 'smape'], rng.randint(1, 4)):
                if fn == 'r2' and rng.random() < 0.5:
                    p.call('metrics.r2', y, yh, E('metrics.R2.' + rng.choice(['adjusted', 'classic'])))
                else:
                    p.call('metrics.' + fn, y, yh)
        elif g == 'lf_coef':
            coef = R(p.call('linear_fit.linear_fit_points', seg))
            for fn in rng.sample(['linear_transform_points', 'linear_r2_points', 'rmspe_points', 'rmsle_points', 'smape_points',
                                  'rpd_points', 'rmse_points', 'linear_residuals_points'], rng.randint(1, 4)):
                p.call('linear_fit.' + fn, seg, coef)
            xs, ys = ({'col': seg, 'c': 0, 'int_in_sim': True} if rng.random() < 0.3 else COL(seg, 0)), COL(seg, 1)
            for fn in rng.sample(['linear_r2', 'rmspe', 'rmsle', 'smape', 'rpd', 'rmse', 'linear_residuals'], rng.randint(1, 3)):
                p.call('linear_fit.' + fn, xs, ys, coef)
            if rng.random() < 0.3:
                p.call('linear_fit.linear_r2', xs, ys, coef, E('metrics.R2.adjusted'))
            c2 = R(p.call('linear_fit.linear_fit', x, y))
            p.call('linear_fit.angle', coef, c2)
            if rng.random() < 0.5:
                # lines with "nice" slopes: exact coincidences (parallel, perpendicular, horizontal) do occur
                nice = [-4.0, -2.0, -1.0, -0.5, -0.25, 0.0, 0.25, 0.5, 1.0, 2.0, 4.0]
                p.call('linear_fit.angle', {'list': [F(rng.choice([0.0, 1.0, 10.0])), F(rng.choice(nice))]},
                       {'list': [F(rng.choice([0.0, 3.0])), F(rng.choice(nice))]})
            p.call('rdp.compute_cost_coef', seg, coef, E('metrics.Metrics.' + rng.choice(METRICS)))
        elif g == 'lf_misc':
            for fn in rng.sample(['linear_hv_residuals_points', 'linear_fit_transform_points', 'linear_fit_residuals_points',
                                  'r2_points'], rng.randint(1, 3)):
                p.call('linear_fit.' + fn, seg)
            xs, ys = ({'col': seg, 'c': 0, 'int_in_sim': True} if rng.random() < 0.3 else COL(seg, 0)), COL(seg, 1)
            p.call('linear_fit.' + rng.choice(['linear_hv_residuals', 'linear_fit_transform', 'linear_fit_residuals', 'r2']), xs, ys)
            if rng.random() < 0.4:
                p.call('linear_fit.linear_fit_transform_points', seg, True)
                p.call('linear_fit.linear_fit_transform', xs, ys, True)
            if rng.random() < 0.3:
                p.call('linear_fit.r2_points', seg, E('metrics.R2.adjusted'))
            if rng.random() < 0.2:
                p.call('linear_fit.r2_points', SL(pts, a, a + 2))
        elif g == 'lf_dist':
            p.call('linear_fit.shortest_distance_points', seg, ROW(pts, a), ROW(pts, b))
            p.call('linear_fit.cross2d', seg, SL(pts, 0, b + 1 - a))
            if rng.random() < 0.3:
                p.call('linear_fit.perpendicular_distance', seg)
                p.call('linear_fit.perpendicular_distance_index', pts, a, b)
                p.call('linear_fit.perpendicular_distance_points', seg, ROW(pts, a), ROW(pts, b))
            for fn in rng.sample(['order_triangle', 'order_area', 'order_segment'], rng.randint(1, 2)):
                mid = rng.randint(1, max(1, b - a - 1))
                if fn == 'order_segment':
                    p.call('rdp.order_segment', seg, mid)
                else:
                    p.call('rdp.' + fn, seg, mid, FN('linear_fit.shortest_distance_points'))
        elif g == 'ranking':
            p.call('knee_ranking.distances', ROW(pts, a), pts)
            r1 = R(p.call('knee_ranking.rect', ROW(pts, a), ROW(pts, b)))
            r2 = R(p.call('knee_ranking.rect', ROW(pts, rng.randrange(n)), ROW(pts, rng.randrange(n))))
            p.call('knee_ranking.rect_overlap', {'res': r1['res'], 'get': [0]}, {'res': r1['res'], 'get': [1]},
                   {'res': r2['res'], 'get': [0]}, {'res': r2['res'], 'get': [1]})
            p.call('knee_ranking.rank', y)
            p.call('knee_ranking.distance_to_similarity', y)
            if knees is not None:
                p.call('knee_ranking.slope_ranking', pts, knees, F(rng.choice([0.8, 0.9, 0.5])))
                p.call('knee_ranking.smooth_ranking', pts, knees, E('knee_ranking.ClusterRanking.' + rng.choice(RANKINGS[:3])))
        elif g == 'cluster' and knees is None or g == 'cluster' and rng.random() < 0.35:
            # the clustering functions take any x-sorted point array: hand them the shared objects as delivered
            tgt = [pts, seg] + [P(j) for j in ctx.of_kind('expected', ci)]
            for fn in rng.sample(CLUSTERINGS, rng.randint(1, 4)):
                p.call('clustering.' + fn, rng.choice(tgt), F(rng.choice([0.01, 0.05, 0.2, 0.5])))
        elif g == 'cluster' and knees is not None:
            kp = TAKE(pts, knees)
            for fn in rng.sample(CLUSTERINGS, rng.randint(1, 4)):
                p.call('clustering.' + fn, kp, F(rng.choice([0.01, 0.05, 0.2, 0.5])))
            p.call('postprocessing.filter_clusters', pts, knees, FN('clustering.' + rng.choice(CLUSTERINGS)),
                   F(rng.choice([0.01, 0.05, 0.2])), E('knee_ranking.ClusterRanking.' + rng.choice(RANKINGS)))
            p.call('postprocessing.filter_clusters_corners', pts, knees, FN('clustering.' + rng.choice(CLUSTERINGS)), F(0.05))
        elif g == 'hull':
            p.call('convex_hull.graham_scan', seg)
            if rng.random() < 0.5:
                p.call('convex_hull.graham_scan_' + rng.choice(['lower', 'upper']), pts)
        elif g == 'menger':
            i = rng.randrange(1, max(2, n - 1))
            p.call('menger.menger_curvature', ROW(pts, i), ROW(pts, i - 1), ROW(pts, min(i + 1, n - 1)))
            p.call('menger.knee', seg)
            p.call('postprocessing.triangle_area', SL(pts, a, a + 3))
        elif g == 'neigh' and n >= 5:
            aa = rng.randint(2, n - 1)
            bb = rng.randint(0, aa - 1)
            t = F(rng.choice([0.8, 0.9, 0.99]))
            p.call('evaluation.get_neighbourhood', x, y, aa, bb, t)
            p.call('evaluation.get_neighbourhood_fast', x, y, aa, bb, t)
            p.call('evaluation.get_neighbourhood_binary', x, y, aa, bb, t)
            p.call('evaluation.get_neighbourhood_points', pts, aa, bb, t)
            p.call('evaluation.get_neighbourhood_fast_points', pts, aa, bb, t)
            if b - a >= 4:
                # the same on a row range of the delivered array (indices relative to the range)
                a2 = rng.randint(2, b - a)
                b2 = rng.randint(0, a2 - 1)
                p.call('evaluation.get_neighbourhood_points', seg, a2, b2, t)
                p.call('evaluation.get_neighbourhood_fast_points', seg, a2, b2, t)
                p.call('evaluation.' + rng.choice(['accuracy_knee', 'accuracy_trace']), seg, {'list': sorted(set([max(1, b2), a2]))})
        elif g == 'partial':
            coef = R(p.call('linear_fit.linear_fit', x, y))
            yh = R(p.call('linear_fit.linear_transform', x, coef))
            m = E('metrics.Metrics.' + rng.choice(METRICS))
            pc = R(p.call('evaluation.compute_partial_cost', y, yh, m))
            p.call('evaluation.compute_cost', pts, {'list': [pc]}, m, {'dict': []})
        elif g == 'pp' and knees is not None:
            for fn in rng.sample(['filter_corner_knees', 'select_corner_knees', 'filter_worst_knees', 'rank_corners',
                                  'rank_corners_triangle'], rng.randint(1, 4)):
                p.call('postprocessing.' + fn, pts, knees)
            p.call('postprocessing.add_points_even_knees', pts, knees, tx=F(rng.choice([0.05, 0.1])), ty=F(rng.choice([0.02, 0.05])))
            ex = ctx.of_kind('expected', ci)
            if ex:
                e = P(rng.choice(ex))
                strat = E('evaluation.Strategy.' + rng.choice(['knees', 'expected', 'best', 'worst']))
                p.call('evaluation.' + rng.choice(['mae', 'mse', 'rmse', 'rmspe']), pts, knees, e, strat)
                c = p.call('evaluation.cm', pts, knees, e, F(rng.choice([0.01, 0.05, 0.2])))
                p.call('evaluation.' + rng.choice(['accuracy', 'f1score', 'mcc']), R(c))
            if rng.random() < 0.5:
                p.call('evaluation.' + rng.choice(['accuracy_knee', 'accuracy_trace']), pts, knees)
        elif g == 'rdp_misc' and knees is not None:
            # a caller-made reduction: end points plus the shared knee indices
            red = {'concat': [0, knees, n - 1]}
            rem = R(p.call('rdp.compute_removed_points', pts, red))
            p.call('rdp.mapping', {'list': list(range(0, min(3, len(ctx.pool[idxs[0]]['values']) + 2)))}, red, rem)
            p.call('evaluation.compute_global_rmse', pts, red)
            p.call('evaluation.compute_global_cost', pts, red, E('metrics.Metrics.' + rng.choice(METRICS)))
            p.call('evaluation.mip', pts, red)
            if rng.random() < 0.3 and n <= 64:
                every = {'concat': [{'list': list(range(n))}]}      # nothing was reduced
                p.call('evaluation.mip', pts, every)
                p.call('evaluation.compute_global_cost', pts, every, E('metrics.Metrics.' + rng.choice(METRICS)))
                p.call('rdp.compute_removed_points', pts, every)
            if rng.random() < 0.4:
                p.call('rdp.mapping', {'list': [0, 1]}, red, rem, False)
        elif g == 'detect1':
            det = rng.choice(['curvature.knee', 'dfdt.knee', 'menger.knee', 'lmethod.knee', 'kneedle.knee'])
            if det == 'kneedle.knee' and rng.random() < 0.5:
                p.call(det, seg, F(rng.choice([0.0, 0.5, 2.0])))
            else:
                p.call(det, seg)
            if rng.random() < 0.3:
                p.call('kneedle.knees', rng.choice([seg, pts]) if n <= 200 else seg, F(rng.choice([0.0, 1.0, 2.0])), F(rng.choice([0.5, 1.0])),
                       E('kneedle.PeakDetection.' + rng.choice(['Kneedle', 'ZScore', 'Significant', 'All'])))
        elif g == 'lmethod' and b - a >= 5:
            xs, ys = ({'col': seg, 'c': 0, 'int_in_sim': True} if rng.random() < 0.3 else COL(seg, 0)), COL(seg, 1)
            fit = E('lmethod.Fit.' + rng.choice(['best_fit', 'point_fit']))
            cst = E('lmethod.Cost.' + rng.choice(['rss', 'rmse']))
            p.call('lmethod.get_knee', xs, ys, fit, cst)
            p.call('lmethod.compute_error', xs, ys, rng.randint(2, b - a - 2), F(1.0), fit, cst)
            p.call('lmethod.knee', seg, fit, E('lmethod.Refinement.' + rng.choice(['none', 'adjusted', 'adjusted', 'original'])), rng.choice([3, 5, 10]))
        elif g == 'dfdt' and b - a >= 4:
            xs, ys = ({'col': seg, 'c': 0, 'int_in_sim': True} if rng.random() < 0.3 else COL(seg, 0)), COL(seg, 1)
            p.call('dfdt.get_knee', xs, ys)
            p.call('dfdt.get_knee_gradient', ys)
            p.call('kneedle.differences', seg, E('kneedle.Direction.' + rng.choice(['Increasing', 'Decreasing'])),
                   E('kneedle.Concavity.' + rng.choice(['Counterclockwise', 'Clockwise'])))
        elif g == 'legacy' and rng.random() < 0.3:
            if rng.random() < 0.5:
                p.call('rdp.plot_frame', pts, {'list': [0, n - 1]}, 0)
            else:
                p.call('evaluation.compute_global_segment_cost', pts, {'list': [0, n - 1] if rng.random() < 0.5 else [0]})
    byname_calls(ctx, p, ci)
    if not p.steps:
        p.call('linear_fit.linear_fit_points', pts)
    return p.out()


def streaming(ctx):
    """A caller that reads one trace after another into ONE pre-allocated buffer (same object, same
    address) and analyses each in turn — the usual shape of a batch job.  The buffer is the
    caller's own array; refilling it is the caller's business, so these steps are never re-issued
    as DUPs, and every library call on the buffer is also compared with a pristine process."""
    rng = ctx.rng
    p = Prog('streaming')
    small = [j for j in ctx.curves() if ctx.n(j) <= 400]
    if not small:
        return primitives(ctx)
    ci = rng.choice(small)
    n = ctx.n(ci)
    same = [j for j in ctx.curves() if ctx.n(j) == n]
    buf = p.call('caller.alloc', n)
    p.steps[-1]['nodup'] = True
    fns = rng.sample(['curvature.knee', 'dfdt.knee', 'menger.knee', 'lmethod.knee', 'kneedle.knee', 'curvature.multi_knee',
                      'dfdt.multi_knee', 'menger.multi_knee', 'lmethod.multi_knee', 'kneedle.multi_knee', 'kneedle.knees',
                      'zmethod.knees', 'zmethod.getPoints', 'rdp.grdp', 'rdp.rdp_fixed', 'rdp.min_point_rdp', 'rdp.mp_grdp',
                      'lmethod.get_knee', 'dfdt.get_knee', 'linear_fit.linear_fit_points', 'linear_fit.r2_points',
                      'convex_hull.graham_scan_lower', 'knee_ranking.rank', 'linear_fit.linear_fit', 'metrics.rmse'],
                     rng.randint(1, 4))
    recycle = rng.random() < 0.4
    for rnd in range(rng.randint(2, 4)):
        src = rng.choice(same)
        if recycle:
            # a fresh array per trace, dropped after use: the allocator hands the same address to the next one
            f = p.call('caller.fresh', P(src), F(rng.choice([1.0, 1.0, 0.5, 2.0, 3.0])), rng.random() < 0.3)
        else:
            f = p.call('caller.fill', R(buf), P(src), F(rng.choice([1.0, 1.0, 0.5, 2.0, 3.0])), rng.random() < 0.3)
        p.steps[-1]['nodup'] = True
        b = R(f)
        for fn in fns:
            if fn in ('lmethod.get_knee', 'dfdt.get_knee', 'linear_fit.linear_fit'):
                p.call(fn, COL(b, 0), COL(b, 1))
            elif fn == 'knee_ranking.rank':
                p.call(fn, COL(b, 1))
            elif fn == 'metrics.rmse':
                p.call(fn, COL(b, 1), COL(b, 0))
            elif fn == 'rdp.rdp_fixed':
                p.call(fn, b, length=min(n, 6))
            elif fn in ('rdp.min_point_rdp', 'rdp.mp_grdp'):
                p.call(fn, b, min_points=min(n, 6))
            else:
                p.call(fn, b)
            p.steps[-1]['nodup'] = True
            if rnd >= 1:          # the first fill meets a fresh buffer: nothing stale can be seen yet
                p.steps[-1]['probe'] = True
        if recycle:
            p.call('caller.drop', f)
            p.steps[-1]['nodup'] = True
    return p.out()


def _soak_functions():
    from . import c20
    return sorted(c20.SOAK_TARGETS)


def soak(ctx):
    """A long-lived process that calls one function on hundreds of distinct small inputs and then repeats
    the first ones (the loop itself is the caller op `caller.soak`, so the plan stays small)."""
    rng = ctx.rng
    p = Prog('soak')
    from . import c20
    targets = _soak_functions()
    hot = [t for t in targets if t in c20.FOCUS_FNS]
    for _ in range(rng.randint(1, 2)):
        tgt = rng.choice(hot) if hot and rng.random() < 0.7 else rng.choice(targets)      # change-directed choice of the function
        if rng.random() < 0.5:
            p.call('caller.soak', tgt, rng.choice([150, 300, 600, 1100]), rng.randrange(1 << 30), rng.choice([6, 7, 9]))
        else:
            p.call('caller.laysoak', tgt, rng.choice([60, 120, 250]), rng.randrange(1 << 30),
                   rng.choice([3, 4, 5, 6, 7, 8, 9, 12, 17, 33]), rng.choice(['F', 'Fview', 'view', 'neg', 'int64', 'int64+F', 'int64+view']))
        p.steps[-1]['nodup'] = True
    return p.out()


_KNOWN_NAMES = {'points', 'pt', 'pts', 'p', 'curve', 'trace', 'data', 'x', 'y', 'y_hat', 'yhat', 'gradient', 'array', 'values', 'knees', 'kn',
                'ks', 'knee_idx', 'indexes', 'indices', 'idx', 'candidates', 'reduced', 'expected', 'a', 'b', 'start', 'end', 'f', 'g',
                'h', 'point', 'coef', 'cost', 'clustering', 't', 't1', 'tx', 'ty', 'eps', 'dx', 'dy', 'dz', 'threshold', 'tau',
                'sensitivity', 't2', 'length', 'min_points', 'limit', 'index', 'left', 'right', 'i', 'k'}
EXTRA_CALLS = []      # [(qualified name, [(parameter name, has default, annotation text)])]: public functions the catalogue does not know (set by the adapter)


def byname_args(ctx, ci, params):
    """Arguments for a public function the catalogue has no entry for, from the package's naming conventions.
    Returns None if a required parameter cannot be served."""
    rng = ctx.rng
    n = ctx.n(ci)
    pts = P(ci)
    idxs = ctx.of_kind('idx', ci)
    ex = ctx.of_kind('expected', ci)
    args = []
    n2d = 0
    for prm in params:
        name, has_default = prm[0], prm[1]
        ann = prm[2] if len(prm) > 2 else ''
        if name not in _KNOWN_NAMES and not has_default and ann:
            # unknown name: go by the annotation (first 2-D looking ndarray is the curve, later ones index sets)
            if 'ndarray' in ann or 'array' in ann.lower():
                n2d += 1
                if n2d == 1:
                    args.append(pts)
                elif idxs:
                    args.append(P(rng.choice(idxs)))
                else:
                    return None
                continue
            if 'float' in ann:
                args.append(F(rng.choice([0.05, 0.1, 0.5])))
                continue
            if 'int' in ann:
                args.append(rng.randint(1, max(1, min(n - 2, 5))))
                continue
            if 'bool' in ann:
                args.append(rng.random() < 0.5)
                continue
            if 'list' in ann.lower() and idxs:
                args.append(P(rng.choice(idxs)))
                continue
        if name in ('points', 'pt', 'pts', 'p', 'curve', 'trace', 'data'):
            args.append(pts)
        elif name == 'x':
            args.append(COL(pts, 0))
        elif name in ('y', 'y_hat', 'yhat', 'gradient', 'array', 'values'):
            args.append(COL(pts, 1))
        elif name in ('knees', 'kn', 'ks', 'knee_idx', 'indexes', 'indices', 'idx', 'candidates') and idxs:
            args.append(P(rng.choice(idxs)))
        elif name == 'reduced':
            args.append({'concat': [0, n // 2, n - 1]})
        elif name == 'expected' and ex:
            args.append(P(rng.choice(ex)))
        elif name in ('a', 'b', 'start', 'end', 'f', 'g', 'h', 'point'):
            args.append(ROW(pts, rng.randrange(n)))
        elif name == 'coef' or name.startswith('coef'):
            args.append({'list': [F(1.0), F(-0.5)]})
        elif name == 'cost':
            args.append(E('metrics.Metrics.' + rng.choice(METRICS)))
        elif name in ('clustering',):
            args.append(FN('clustering.' + rng.choice(CLUSTERINGS)))
        elif has_default:
            break                     # leave this and the remaining parameters at their defaults
        elif name in ('t', 't1', 'tx', 'ty', 'eps', 'dx', 'dy', 'dz', 'threshold', 'tau', 'sensitivity'):
            args.append(F(rng.choice([0.05, 0.1, 0.5])))
        elif name in ('t2', 'length', 'min_points', 'limit', 'index', 'left', 'right', 'i', 'k'):
            args.append(rng.randint(1, max(1, min(n - 2, 5))))
        else:
            return None
    return args


def byname_calls(ctx, p, ci):
    for qual, params in EXTRA_CALLS:
        if ctx.rng.random() < 0.7:
            a = byname_args(ctx, ci, params)
            if a is not None:
                p.call(qual, *a)


CLIENT_KINDS = {'pipeline': pipeline, 'zclient': zclient, 'primitives': primitives, 'streaming': streaming, 'soak': soak}
