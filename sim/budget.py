"""Deterministic loop budget for calls into the package (Python 3.12 sys.monitoring).

A JUMP callback is attached (local events) to the code objects of the package's own Python
functions only; it counts backward jumps (loop iterations) and raises SimBudgetExceeded into
the running call when the per-call limit is exceeded.  A budget hit is therefore a *value* of
that call (DIVERGED), identical in every world and in every replay — never a wall-clock event.
"""
import sys
import types

TOOL_ID = 4
_state = {'installed': False, 'count': 0, 'limit': None, 'hits': 0, 'tripped': False, 'max_ratio': 0.0}


class SimBudgetExceeded(BaseException):
    pass


def _codes_of(module):
    seen = []

    def walk(code):
        seen.append(code)
        for c in code.co_consts:
            if isinstance(c, types.CodeType):
                walk(c)
    for name, obj in sorted(vars(module).items()):
        fn = obj
        if hasattr(fn, 'py_func'):      # numba dispatcher: the Python original (used only if called un-jitted)
            fn = fn.py_func
        if isinstance(fn, types.FunctionType) and fn.__module__ == module.__name__:
            walk(fn.__code__)
        elif isinstance(fn, type) and fn.__module__ == module.__name__:
            for _, meth in sorted(vars(fn).items()):
                if isinstance(meth, types.FunctionType):
                    walk(meth.__code__)
    return seen


def _cb(code, instruction_offset, destination_offset):
    if destination_offset < instruction_offset:
        _state['count'] += 1
        lim = _state['limit']
        if lim is not None and _state['count'] > lim:
            # keeps raising at every further loop iteration until run() returns, so a handler inside the
            # library cannot swallow it and carry on
            if not _state['tripped']:
                _state['tripped'] = True
                _state['hits'] += 1
            raise SimBudgetExceeded('step budget of %d exceeded' % lim)


def _cb_start(code, instruction_offset):
    # a call of a package function costs one step too: loops whose body is mostly calls (and little
    # Python-level iteration) reach the budget in proportionate wall time
    _state['count'] += 1


def install():
    if _state['installed']:
        return 0
    mon = sys.monitoring
    if mon.get_tool(TOOL_ID) is None:
        mon.use_tool_id(TOOL_ID, 'kneesim-budget')
    mon.register_callback(TOOL_ID, mon.events.JUMP, _cb)
    mon.register_callback(TOOL_ID, mon.events.PY_START, _cb_start)
    n = 0
    for name in sorted(sys.modules):
        if name == 'kneeliverse' or name.startswith('kneeliverse.'):
            mod = sys.modules[name]
            if mod is None:
                continue
            for code in _codes_of(mod):
                mon.set_local_events(TOOL_ID, code, mon.events.JUMP | mon.events.PY_START)
                n += 1
    _state['installed'] = True
    return n


def run(limit, fn, *args, **kwargs):
    """Call fn under a loop budget.  Returns ('ok', value) or ('diverged', None); other exceptions
    propagate."""
    _state['count'] = 0
    _state['limit'] = int(limit)
    _state['tripped'] = False
    try:
        return ('ok', fn(*args, **kwargs))
    except SimBudgetExceeded:
        return ('diverged', None)
    finally:
        _state['limit'] = None
        r = _state['count'] / float(limit)
        if r > _state['max_ratio'] and not _state['tripped']:
            _state['max_ratio'] = r


def hits():
    return _state['hits']


def limit_for(n):
    """Steps (loop iterations + package-level calls) allowed for one public call on curves of n points.
    The heaviest terminating paths are quadratic (grdp re-evaluates every segment per refinement, the
    recursive multi-knee wrappers call an O(n) detector per split); measured use stays below 20 % of this."""
    n = int(n)
    return 250000 + 400 * n + 6 * n * n      # the floor leaves room for one-time initialisation work on a first call
