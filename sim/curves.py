"""Seeded generators of performance curves (pure Python floats; no numpy randomness).

Every curve is finite, has strictly increasing x and y >= 0 — the inputs the properties
quantify over.  A curve is a list of [x, y] Python floats.
"""
import math

FAMILIES = ('mrc', 'noisy', 'plateau', 'zeros', 'collinear', 'walk', 'constant', 'elbow', 'offset', 'periodic', 'ulps')


def _xs(rng, n, kind):
    if kind == 'int':
        x0 = rng.choice([0, 1, 1, 5, 100])
        return [float(x0 + i) for i in range(n)]
    if kind == 'gaps':
        x = float(rng.choice([0, 1, 10]))
        out = []
        for _ in range(n):
            out.append(x)
            x += float(rng.choice([1, 1, 1, 2, 3, 10, 50]))
        return out
    if kind == 'offset':
        # time stamps / addresses: a large offset with a small step (the chord's intercept cancels catastrophically)
        x0 = rng.choice([1.0e6, 1.7e9, 1.0e12, -5000.0, -1.0e6])
        step = rng.choice([1.0, 0.125, 0.5, 60.0])
        return [x0 + step * i for i in range(n)]
    if kind == 'jitter':
        # an index grid 0..n-1 whose interior samples are displaced (end points stay exactly 0 and n-1)
        out = [float(i) for i in range(n)]
        for i in range(1, n - 1):
            if rng.random() < 0.4:
                out[i] = i + rng.choice([-0.25, 0.25, 0.5, -0.5, 0.125])
        return out
    x = rng.uniform(0, 10)
    out = []
    for _ in range(n):
        out.append(x)
        x += rng.uniform(0.01, 2.0)
    return out


def gen_curve(rng, n, family=None, scale=True):
    """Return (family, [[x, y], ...]) with n >= 2 points."""
    if family is None:
        family = rng.choice(FAMILIES)
    xs = _xs(rng, n, rng.choice(['int', 'int', 'gaps', 'real', 'jitter', 'offset']))
    ys = []
    if family == 'mrc':
        a = rng.uniform(0.5, 50)
        b = rng.uniform(0.1, 10)
        p = rng.uniform(0.3, 3)
        c = rng.uniform(0, 0.3)
        for x in xs:
            ys.append(a / (x - xs[0] + b) ** p + c)
        # a few cliffs
        for _ in range(rng.randint(0, 3)):
            k = rng.randrange(n)
            d = rng.uniform(0, 0.5) * ys[k]
            for j in range(k, n):
                ys[j] = max(ys[j] - d, 0.0)
    elif family == 'noisy':
        a = rng.uniform(0.5, 5)
        for i, x in enumerate(xs):
            ys.append(max(a * math.exp(-3.0 * i / n) + rng.gauss(0, 0.05 * a), 0.0))
    elif family == 'plateau':
        v = float(rng.randint(5, 40))
        for _ in xs:
            if rng.random() < 0.35:
                v = max(v - float(rng.randint(1, 6)), 0.0)
            ys.append(v)
    elif family == 'zeros':
        v = rng.uniform(0.5, 3)
        for i in range(n):
            r = rng.random()
            if r < 0.3:
                ys.append(0.0)
            else:
                ys.append(max(v * (1 - i / n) + rng.uniform(-0.1, 0.1), 0.0))
        if rng.random() < 0.5:
            ys[-1] = 0.0
        if rng.random() < 0.2:
            ys[0] = 0.0
    elif family == 'collinear':
        # piecewise linear with exactly representable slopes on integer-ish grid
        y = float(rng.randint(20, 200))
        m = float(rng.choice([-4, -2, -1, -0.5, 0, 1]))
        for i in range(n):
            ys.append(max(y, 0.0))
            if rng.random() < 0.2:
                m = float(rng.choice([-4, -2, -1, -0.5, -0.25, 0, 0.5]))
            step = xs[i + 1] - xs[i] if i + 1 < n else 0.0
            y = y + m * step
    elif family == 'walk':
        y = rng.uniform(1, 10)
        for _ in range(n):
            ys.append(y)
            y = max(y + rng.gauss(-0.1, 0.5), 0.0)
    elif family == 'constant':
        v = rng.choice([0.0, 1.0, 0.5, rng.uniform(0, 100)])
        ys = [v] * n
        if rng.random() < 0.3 and n > 2:
            ys[rng.randrange(n)] = v + rng.choice([1e-9, 1.0])
    elif family == 'offset':
        # a level plus a small variation (latencies around a base value, counters with a large offset)
        base = rng.choice([1e2, 1e3, 1e4, 1e6, 1e8, 123456.0])
        amp = rng.choice([1.0, 1.0, 10.0, 0.01]) * rng.uniform(0.5, 2)
        for i in range(n):
            ys.append(base + amp * (math.exp(-4.0 * i / n) + rng.uniform(-0.05, 0.05)))
    elif family == 'periodic':
        # a y pattern that repeats (on an x grid that need not): stretches with identical y bytes, different geometry
        k = rng.randint(2, 6)
        pat = [rng.choice([1.0, 2.0, 5.0, 8.0, 0.0, 3.5]) for _ in range(k)]
        if len(set(pat)) == 1:
            pat[0] += 1.0
        amp = rng.choice([1.0, 10.0, 0.5])
        ys = [amp * pat[i % k] for i in range(n)]
    elif family == 'ulps':
        # a level whose samples differ by a few units in the last place
        v = rng.choice([1.0, 0.5, 100.0, 123456.789, 1e-3])
        ys = [v * (1.0 + rng.randint(0, 300) * 2.0 ** -52) for _ in range(n)]
    elif family == 'elbow':
        k = rng.randrange(1, max(2, n - 1))
        m1 = -rng.uniform(1, 20)
        m2 = -rng.uniform(0, 0.5)
        y0 = rng.uniform(50, 500)
        for i, x in enumerate(xs):
            if i <= k:
                ys.append(y0 + m1 * (x - xs[0]))
            else:
                ys.append(y0 + m1 * (xs[k] - xs[0]) + m2 * (x - xs[k]))
        lo = min(ys)
        if lo < 0:
            ys = [y - lo for y in ys]
    else:
        raise ValueError(family)
    if scale and rng.random() < 0.3:
        sx = 10.0 ** rng.randint(-9, 9)
        sy = 10.0 ** rng.randint(-9, 9)
        xs = [x * sx for x in xs]
        ys = [y * sy for y in ys]
    # enforce strictly increasing x after scaling (products of distinct floats can collide only by underflow)
    pts = []
    last = None
    for x, y in zip(xs, ys):
        if not (math.isfinite(x) and math.isfinite(y)):
            continue
        if last is not None and not (x > last):
            continue
        pts.append([float(x), float(max(y, 0.0)) + 0.0])
        last = x
    if len(pts) < 2:
        pts = [[0.0, 1.0], [1.0, 0.0]]
    return family, pts


BLOCKY = [255, 256, 257, 511, 512, 513, 1023, 1024, 1025, 1536, 2047, 2048, 2049, 4096, 4097, 8191, 8192, 8193, 16384, 16385]


def draw_n(rng, tier):
    r = rng.random()
    if r < (0.012 if tier == 'quick' else 0.03):
        # long curves at and around block sizes (chunked / vectorised implementations change path there)
        return rng.choice(BLOCKY[:9] + ([8192] if rng.random() < 0.15 else []) if tier == 'quick' else BLOCKY)
    if r < 0.5:
        return rng.randint(2, 8)
    if r < 0.9 or tier == 'quick' and r < 0.97:
        return rng.randint(9, 40)
    if r < 0.985:
        return rng.randint(41, 120)
    return rng.randint(121, 400) if tier == 'thorough' else rng.randint(41, 120)
