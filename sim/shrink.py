"""Delta debugging over plans.  `test(plan) -> bool` must return True iff the plan still fails with
the same oracle id.  No clock is consulted for decisions; a wall-clock cap only stops early."""
import copy
import time


def ddmin_list(items, rebuild, test, deadline):
    """Minimise `items` (list) such that test(rebuild(items)) stays True."""
    n = 2
    items = list(items)
    while len(items) >= 1:
        if time.time() > deadline:
            break
        chunk = max(1, len(items) // n)
        reduced = False
        i = 0
        while i < len(items):
            cand = items[:i] + items[i + chunk:]
            if time.time() > deadline:
                break
            if test(rebuild(cand)):
                items = cand
                n = max(n - 1, 2)
                reduced = True
            else:
                i += chunk
        if not reduced:
            if chunk == 1:
                break
            n = min(len(items), n * 2)
    return items


def shrink_steps(plan, test, deadline, key='steps'):
    def rebuild(steps):
        p = copy.deepcopy(plan)
        p[key] = steps
        return p
    steps = ddmin_list(plan[key], rebuild, test, deadline)
    return rebuild(steps)
