"""Reference model for C15: the definition of the global reconstruction cost, evaluated as an
interval that is guaranteed to contain every reasonable floating-point evaluation of it.

Same interface as the library (points, breakpoints, metric) -> (LO, HI); trivial inside:
piecewise-linear interpolation through the breakpoints, per-metric term accumulated over every
point of every segment with >= 3 points (both ends included), 0 for segments of <= 2 points,
divisor n + (#segments - 1), sqrt for RMSLE / RMSPE, R2 = 1 - RSS/TSS (1 - RSS if TSS == 0)
clipped at 0.  Nothing here imports kneeliverse.
"""
import math

import numpy as np

U = 2.0 ** -53
EPS = 1e-16
REL = 1e-12          # relative slack on accumulated sums / normalisation
METRICS = ('r2', 'rmspe', 'rmsle', 'rpd', 'smape')


def _chord(x, y, a, b):
    """Interpolated y-hat on points a..b (inclusive) as centre and half-width delta."""
    xs = x[a:b + 1]
    xa, ya, xb, yb = x[a], y[a], x[b], y[b]
    d = xb - xa
    if d == 0:
        # library: linear_fit returns (0, 0) when x[0] == x[-1]
        c = np.zeros(len(xs))
        return c, np.zeros(len(xs))
    m = (yb - ya) / d
    c = ya + m * (xs - xa)
    # symmetric in the two chord ends: covers x*m + b, y_a + m (x - x_a), y_b + m (x - x_b), two-point (Lagrange) form, np.interp
    delta = 16 * U * (abs(m) * (np.abs(xs) + abs(xa) + abs(xb)) + abs(ya) + abs(yb) + np.abs(c))
    # subnormal / underflow guard
    delta = delta + 1e-300
    return c, delta


def _sq_iv(lo, hi):
    """Interval of t**2 for t in [lo, hi] (arrays)."""
    a = lo * lo
    b = hi * hi
    top = np.maximum(a, b)
    bot = np.where((lo <= 0) & (hi >= 0), 0.0, np.minimum(a, b))
    return bot, top


def _v_iv(f, lo, hi, y):
    """Interval of a V-shaped function f(yhat) with minimum 0 at yhat == y."""
    flo = f(lo)
    fhi = f(hi)
    top = np.maximum(flo, fhi)
    bot = np.where((lo <= y) & (y <= hi), 0.0, np.minimum(flo, fhi))
    return bot, top


def segment_term_iv(x, y, a, b, metric):
    """(lo, hi) of the accumulated per-point term of `metric` on segment a..b (inclusive)."""
    ys = y[a:b + 1]
    c, delta = _chord(x, y, a, b)
    lo = c - delta
    hi = c + delta
    if metric in ('r2', 'rss'):
        bot, top = _sq_iv(ys - hi, ys - lo)
    elif metric == 'rmspe':
        den = ys + EPS
        q1 = (ys - hi) / den
        q2 = (ys - lo) / den
        bot, top = _sq_iv(np.minimum(q1, q2), np.maximum(q1, q2))
    elif metric == 'rmsle':
        ly = np.log(ys + 1.0)
        with np.errstate(all='ignore'):
            llo = np.log(np.maximum(lo + 1.0, 1e-300))
            lhi = np.log(hi + 1.0)
        sl = 8 * U * (np.abs(ly) + np.maximum(np.abs(llo), np.abs(lhi)) + 1.0)
        bot, top = _sq_iv(ly - lhi - sl, ly - llo + sl)
    elif metric == 'rpd':
        def f(t):
            return np.abs(ys - t) / (np.maximum(ys, t) + EPS)
        bot, top = _v_iv(f, lo, hi, ys)
    elif metric == 'smape':
        def f(t):
            return 2.0 * np.abs(t - ys) / (np.abs(ys) + np.abs(t) + EPS)
        bot, top = _v_iv(f, lo, hi, ys)
    else:
        raise ValueError(metric)
    n = len(ys)
    slack = REL + 4 * n * U
    sb = float(np.sum(bot))
    st = float(np.sum(top))
    return sb * (1 - slack) - 1e-300, st * (1 + slack) + 1e-300


def _valid(points):
    x = points[:, 0]
    y = points[:, 1]
    return x, y


def global_cost_iv(points, reduced, metric):
    """Interval [LO, HI] for compute_global_cost(points, reduced, metric)."""
    points = np.asarray(points, dtype=float)
    x, y = _valid(points)
    reduced = [int(r) for r in reduced]
    n = len(points)
    lo_sum = 0.0
    hi_sum = 0.0
    nseg = len(reduced) - 1
    for k in range(nseg):
        a, b = reduced[k], reduced[k + 1]
        if b - a + 1 <= 2:
            continue
        sb, st = segment_term_iv(x, y, a, b, metric)
        lo_sum += max(sb, 0.0)
        hi_sum += st
    lo_sum *= (1 - REL)
    hi_sum *= (1 + REL)
    total = n + nseg - 1
    if metric == 'r2':
        # TSS about the mean: for the exact mean m*, tss(m) = tss(m*) + n (m - m*)^2 >= tss(m*), so any evaluation
        # whose mean is within dm of m* lands in [tss*, tss* + n dm^2] (the subtraction y - m of nearby numbers is
        # exact or relatively accurate, so term rounding is a relative 1e-12 matter).  dm bounds the error of any
        # reasonable summation (naive, pairwise, compensated) of n values: 2 n u max|y|.
        n_y = len(y)
        if np.all(y == y[0]):
            # tss == 0 exactly iff all y are equal (then every evaluation gives exactly 0)
            lo = 1.0 - hi_sum
            hi = 1.0 - lo_sum
        else:
            ymax = float(np.max(np.abs(y)))
            ym = math.fsum(y.tolist()) / n_y
            dev = y - ym
            if float(np.max(np.abs(dev))) < 1e-6 * ymax and n_y <= 20000:
                # nearly constant curve: the float mean itself is too coarse, use exact rational arithmetic
                from fractions import Fraction
                fy = [Fraction(float(v)) for v in y.tolist()]
                fm = sum(fy) / n_y
                tss = float(sum((v - fm) ** 2 for v in fy))
            else:
                tss = math.fsum((dev * dev).tolist())
            dm = 2.0 * n_y * U * ymax
            t_lo = tss * (1 - 1e-11) - 1e-300
            t_hi = (tss + n_y * dm * dm) * (1 + 1e-11) + 1e-300
            if t_lo <= 0:
                return 0.0, math.inf
            q_lo = lo_sum / t_hi
            q_hi = hi_sum / t_lo
            ab = 1e-12 * (1.0 + q_hi)
            lo = 1.0 - q_hi - ab
            hi = 1.0 - q_lo + ab
        return max(lo, 0.0), max(hi, 0.0)
    if metric in ('rmsle', 'rmspe'):
        return math.sqrt(max(lo_sum, 0.0) / total) * (1 - REL), math.sqrt(hi_sum / total) * (1 + REL)
    return max(lo_sum, 0.0) / total * (1 - REL), hi_sum / total * (1 + REL)


def global_rmse_iv(points, reduced):
    """Interval for compute_global_rmse: sqrt(sum_i (y_i - yhat_i)^2 / n) with every segment
    (also 2-point ones, whose chord reproduces the end points up to rounding) and every
    interior breakpoint counted once per adjoining segment in the numerator, divisor n."""
    points = np.asarray(points, dtype=float)
    x, y = _valid(points)
    reduced = [int(r) for r in reduced]
    n = len(points)
    lo_sum = 0.0
    hi_sum = 0.0
    for k in range(len(reduced) - 1):
        a, b = reduced[k], reduced[k + 1]
        sb, st = segment_term_iv(x, y, a, b, 'rss')
        lo_sum += max(sb, 0.0)
        hi_sum += st
    return math.sqrt(max(lo_sum, 0.0) * (1 - REL) / n) * (1 - REL), math.sqrt(hi_sum * (1 + REL) / n) * (1 + REL)


def rel_width(lo, hi):
    if hi == lo:
        return 0.0
    m = max(abs(lo), abs(hi))
    if m == 0 or math.isinf(m):
        return math.inf
    return (hi - lo) / m


def rmsle_nan_admitted(points, reduced):
    """True if, for some point of some segment with >= 3 points, the rounding bound of the chord admits
    y_hat + 1 <= 0: an evaluation of the definition in the intercept form x*m + b may then take the
    logarithm of a non-positive number (large x offset relative to the segment's span, chord ending near
    y = 0).  The definition is numerically meaningless there and nothing is decided."""
    points = np.asarray(points, dtype=float)
    x, y = _valid(points)
    reduced = [int(r) for r in reduced]
    for k in range(len(reduced) - 1):
        a, b = reduced[k], reduced[k + 1]
        if b - a + 1 <= 2:
            continue
        c, delta = _chord(x, y, a, b)
        if np.any(c - delta + 1.0 <= 0.0):
            return True
    return False
