"""Batch runner: many seeded runs across processes, evidence, minimisation, replay files.

A property adapter provides:
  NAME                          property id
  prepare(tier)                 parent-side warm-up before workers are forked (JIT etc.)
  worker_init()                 per-worker initialisation (after fork)
  make_plan(base, i, tier)      -> plan (pure function of (base, i, tier, code))
  execute(plan, stats)          -> {'digest', 'violation', 'nontrivial', 'stats', ...}
  shrink(plan, violation, deadline) -> smaller plan failing with the same oracle
  finding_key(violation, plan)  -> string identifying the failure for known_findings.json
  evidence_extra(agg)           -> dict merged into coverage
"""
import concurrent.futures as cf
import faulthandler
import json
import multiprocessing
import os
import subprocess
import sys
import time
import traceback

from . import core, isolate

CHUNK = 25
RUN_TIMEOUT = {'quick': 150, 'thorough': 400}      # seconds of wall clock per run (runs take 0.05-3 s)
_ADAPTER = None
KNOWN_KEYS = frozenset()


def _one_run(base, i, tier):
    """Executed in a forked child: generate run i, execute it, return a compact summary."""
    ad = _ADAPTER
    plan = ad.make_plan(base, i, tier)
    st = {}
    r = ad.execute(plan, st)
    viols = r.get('violations') or []
    def known_key(v):
        if v['key'] in KNOWN_KEYS:
            return v['key']
        for a_ in v.get('alt_keys') or []:      # link witnesses: the recorded site may be any package frame of the traceback
            if a_ in KNOWN_KEYS:
                return a_
        return None
    known = [known_key(v) for v in viols if known_key(v)]
    unknown = [v for v in viols if not known_key(v)]
    # one entry per distinct key and run
    seen = set()
    uniq = []
    for v in unknown:
        if v['key'] not in seen:
            seen.add(v['key'])
            uniq.append(v)
    return {'pd': core.sha(plan)[:20], 'ed': r.get('digest', '')[:20], 'nontrivial': bool(r.get('nontrivial')),
            'states': [x[:16] for x in (r.get('cache_states') or [])],
            'diagnostics': (r.get('diagnostics') or [])[:2], 'violations': uniq, 'known': sorted(set(known)),
            'plan': plan if uniq else None, 'stats': st,
            'sample': ad.sample_view(plan) if i % 997 == 0 else None}


def _worker_chunk(args):
    base, idxs, tier, per_chunk_timeout = args
    run_timeout = RUN_TIMEOUT[tier]
    ad = _ADAPTER
    out = {'n': 0, 'digests': [], 'nontrivial': [], 'stats': {}, 'violations': [], 'harness_errors': [],
           'states': [], 'diagnostics': [], 'samples': [], 'known': {}, 'run_digests': []}
    try:
        if not getattr(_worker_chunk, '_inited', False):
            ad.worker_init()
            _worker_chunk._inited = True
        for i in idxs:
            try:
                one = isolate.with_rundir(_one_run, (base, i, tier), timeout=run_timeout)
            except isolate.ChildFailed as e:
                if e.signal in isolate.CRASH_SIGNALS:
                    # the process executing the run was killed by a fault signal while running library code:
                    # a finding about the code under test, not about the harness
                    name = isolate.CRASH_SIGNALS[e.signal]
                    out['n'] += 1
                    out['violations'].append({'i': i, 'violation': {'oracle': 'CRASH', 'key': 'CRASH:' + name, 'step': None,
                                                                    'detail': 'the process executing this run died with ' + name},
                                              'plan': ad.make_plan(base, i, tier)})
                elif e.signal == isolate.HANG_SIGNAL:
                    # the run did not finish within its (generous) wall-clock limit: a call blocked outside Python-level
                    # loops (a lock never released, a wait) cannot trip the step budget.  Reported as a finding only
                    # after it has hung again when re-executed alone (cmd_check); counted separately here.
                    out['n'] += 1
                    out['violations'].append({'i': i, 'violation': {'oracle': 'HANG', 'key': 'HANG:no result within %ds' % run_timeout,
                                                                    'step': None, 'detail': 'the process executing this run did not finish'},
                                              'plan': ad.make_plan(base, i, tier)})
                else:
                    out['harness_errors'].append({'i': i, 'trace': traceback.format_exc()[-2000:]})
                continue
            except Exception:
                out['harness_errors'].append({'i': i, 'trace': traceback.format_exc()[-2000:]})
                continue
            out['n'] += 1
            out['digests'].append(one['pd'])
            out['run_digests'].append((i, one['ed']))
            if one['nontrivial']:
                out['nontrivial'].append(one['pd'])
            out['states'].extend(one['states'])
            for k, v in one['stats'].items():
                out['stats'][k] = out['stats'].get(k, 0) + v
            for d in one['diagnostics']:
                if len(out['diagnostics']) < 5:
                    out['diagnostics'].append({'i': i, 'diag': d})
            for v in one['violations']:
                out['violations'].append({'i': i, 'violation': v, 'plan': one['plan']})
            for kk in one['known']:
                h = out['known'].setdefault(kk, [0, i])
                h[0] += 1
            if one['sample'] is not None and len(out['samples']) < 1:
                out['samples'].append({'i': i, 'plan': one['sample']})
    finally:
        pass
    out['states'] = sorted(set(out['states']))
    return out


def run_batch(adapter, tier, base, nruns, workers, soft_deadline_s, start=0):
    """Execute runs start..start+nruns-1.  Returns aggregate dict."""
    global _ADAPTER
    _ADAPTER = adapter
    t0 = time.time()
    idxs = list(range(start, start + nruns))
    chunk = getattr(adapter, 'CHUNK', CHUNK)
    chunks = [idxs[k:k + chunk] for k in range(0, len(idxs), chunk)]
    agg = {'n': 0, 'digests': set(), 'nontrivial': set(), 'stats': {}, 'violations': [], 'harness_errors': [],
           'states': set(), 'diagnostics': [], 'samples': [], 'stopped_by_deadline': False, 'chunks_done': 0, 'known': {}, 'run_digests': []}
    ctx = multiprocessing.get_context('fork')
    per_chunk_timeout = 600 if tier == 'quick' else 1800
    ex = cf.ProcessPoolExecutor(max_workers=workers, mp_context=ctx)
    try:
        pending = {}
        it = iter(chunks)
        exhausted = False

        def submit_more():
            nonlocal exhausted
            while not exhausted and len(pending) < workers + 4:
                if time.time() - t0 > soft_deadline_s:
                    agg['stopped_by_deadline'] = True
                    exhausted = True
                    break
                try:
                    c = next(it)
                except StopIteration:
                    exhausted = True
                    break
                f = ex.submit(_worker_chunk, (base, c, tier, per_chunk_timeout))
                pending[f] = c
        submit_more()
        while pending:
            done, _ = cf.wait(list(pending), timeout=per_chunk_timeout + 60, return_when=cf.FIRST_COMPLETED)
            if not done:
                raise core.HarnessError('worker batch timed out')
            for f in done:
                pending.pop(f)
                if f.cancelled():      # cancelled below once the batch had enough findings; never started
                    continue
                r = f.result()   # BrokenProcessPool -> harness error upstream
                agg['n'] += r['n']
                agg['digests'].update(r['digests'])
                agg['run_digests'].extend(r['run_digests'])
                agg['nontrivial'].update(r['nontrivial'])
                agg['states'].update(r['states'])
                for k, v in r['stats'].items():
                    agg['stats'][k] = agg['stats'].get(k, 0) + v
                agg['violations'].extend(r['violations'])
                for kk, (cnt, first) in r['known'].items():
                    h = agg['known'].setdefault(kk, [0, first])
                    h[0] += cnt
                    h[1] = min(h[1], first)
                agg['harness_errors'].extend(r['harness_errors'])
                agg['diagnostics'].extend(r['diagnostics'][:2])
                agg['samples'].extend(r['samples'])
                agg['chunks_done'] += 1
            if (len(set(v['violation']['key'] for v in agg['violations'])) >= 6 or len(agg['violations']) >= 60
                    or (agg['violations'] and os.environ.get('KNEESIM_FAIL_FAST') == '1')      # used by the seeded / mutant runners only
                    or sum(1 for v in agg['violations'] if v['violation']['oracle'] == 'HANG') >= 2) or len(agg['harness_errors']) >= 5:
                for f in pending:
                    f.cancel()
                exhausted = True
            submit_more()
    finally:
        ex.shutdown(wait=True, cancel_futures=True)
    agg['wall_s'] = time.time() - t0
    agg['run_digests'].sort()
    agg['batch_digest'] = core.sha(agg['run_digests'])
    agg['violations'].sort(key=lambda v: v['i'])
    return agg


def replay_in_fresh_interpreter(prop, path, timeout=300):
    """Replay a plan file in a fresh interpreter.  Returns (reproduced: bool, output)."""
    cmd = [sys.executable, os.path.join(core.VERIF_DIR, 'checks', 'run.py'), prop, '--replay', path, '--quiet']
    env = dict(os.environ)
    env.pop('KNEESIM_PINNED', None)
    try:
        p = subprocess.run(cmd, env=env, capture_output=True, text=True, timeout=timeout)
    except subprocess.TimeoutExpired:
        return False, 'replay timed out'
    return p.returncode == 1 and 'REPRODUCED' in p.stdout, p.stdout[-2000:] + p.stderr[-2000:]


def load_known_findings():
    p = os.path.join(core.VERIF_DIR, 'known_findings.json')
    if not os.path.exists(p):
        return {'known': [], 'fixed': []}
    with open(p) as f:
        return json.load(f)
