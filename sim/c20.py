"""C20 — purity, determinism, delivery independence; linkage witnesses.

One run executes the same caller programs in two worlds and compares them:

  W_ref  each client alone in its own forked child of a process that has only imported the
         package; pool objects as fresh C-contiguous float64 copies; real allocator.
  W_sim  all clients interleaved by the seeded scheduler in one long-lived process; pool objects
         shared between clients and delivered in drawn layouts (C / F / strided view / negative
         stride / int64); np.empty / np.empty_like poisoned; earlier calls re-issued (DUP);
         every public function wrapped by the purity monitor.

Oracles: P1 no public function changes an array/list argument (checked at every public call
boundary and on the shared pool after every scheduler step); P2 every result in W_sim equals
the result in W_ref by value, bit for bit, and every DUP equals the original; D any NameError /
module AttributeError / arity TypeError escaping a public function is a witness against clause
(d).  A run collects all its findings; each has a key used for minimisation and for
known_findings.json.
"""
import copy
import json as _json
import random

import numpy as np

from . import budget, catalog, curves, isolate, worlds
from .core import fhex, unhex, sha


# ----------------------------------------------------------------------------- generation

def _draw_n(rng, tier):
    r = rng.random()
    if r < (0.01 if tier == 'quick' else 0.03):
        # long traces at and around block sizes (vectorised / chunked code paths switch there)
        return rng.choice([255, 256, 257, 511, 512, 513, 1023, 1024, 1025, 1100] + ([2047, 2048, 2049] if tier == 'thorough' else []))
    if r < 0.06:
        return rng.randint(3, 7)
    if r < 0.55:
        return rng.randint(8, 24)
    if r < 0.93 or tier == 'quick':
        return rng.randint(25, 60)
    return rng.randint(61, 400)


def _renumber(x, pos):
    """Shift references to results of steps at index >= pos by one (a step is being inserted at pos)."""
    if isinstance(x, dict):
        if 'res' in x and isinstance(x['res'], int) and x['res'] >= pos:
            x['res'] += 1
        for v in x.values():
            _renumber(v, pos)
    elif isinstance(x, list):
        for v in x:
            _renumber(v, pos)


def _swap_pool(x, a, b):
    if isinstance(x, dict):
        if x.get('pool') == a:
            x['pool'] = b
        for v in x.values():
            _swap_pool(v, a, b)
    elif isinstance(x, list):
        for v in x:
            _swap_pool(v, a, b)


def _add_sibling_repeats(rng, client, pool):
    """Right after up to two calls that take a pool curve, the same call on a look-alike sibling of that curve
    (same x grid, same end points, nearly or partly the same y): "last query" state keyed too coarsely answers
    the second call with the first call's result.  Always compared with a pristine process."""
    sib_of = {}
    for i, o in enumerate(pool):
        if o['kind'] == 'curve' and o.get('sibling') is not None:
            sib_of.setdefault(o['sibling'], []).append(i)
            sib_of.setdefault(i, []).append(o['sibling'])
    if not sib_of:
        return
    # the catalogue reuses spec objects across steps (deepcopy would keep them shared): unshare before renumbering
    client['steps'] = _json.loads(_json.dumps(client['steps']))
    cand = []
    for k, st in enumerate(client['steps']):
        if st['fn'].startswith('caller.') or st.get('nodup'):
            continue
        refs = [r_ for r_ in _pool_refs(st) if r_ in sib_of]
        uses_results = '"res"' in _json.dumps([st['args'], st['kw']])
        if refs and not uses_results:
            cand.append((k, refs[0]))
    hot = [c_ for c_ in cand if client['steps'][c_[0]]['fn'] in FOCUS_FNS]
    if hot:
        cand = hot          # change-directed: repeat the calls that reach changed code
    for k, ci in sorted(rng.sample(cand, min(len(cand), rng.choice([0, 1, 2]) if not hot else rng.choice([1, 2, 3]))), reverse=True):
        st = copy.deepcopy(client['steps'][k])
        _swap_pool(st, ci, rng.choice(sib_of[ci]))
        st['probe'] = True
        pos = k + 1
        for other in client['steps']:
            _renumber(other['args'], pos)
            _renumber(other['kw'], pos)
            if isinstance(other.get('variant_of'), int) and other['variant_of'] >= pos:
                other['variant_of'] += 1
        client['steps'].insert(pos, st)


def _add_option_variants(rng, client):
    """Append, for up to two earlier calls, the same call with exactly one literal option changed (a threshold,
    a count, a flag).  State keyed on the data but not on the option shows as a difference from a pristine process."""
    cand = []
    for k, st in enumerate(client['steps']):
        if st['fn'].startswith('caller.') or st.get('nodup'):
            continue
        slots = [('a', i) for i, a in enumerate(st['args']) if _is_literal(a)] + [('k', n_) for n_, a in st['kw'].items() if _is_literal(a)]
        slots += [('d', n_, d_) for n_, d_ in _defaulted_options(st)]
        if slots:
            cand.append((k, slots))
    for k, slots in rng.sample(cand, min(len(cand), rng.choice([0, 1, 2]))):
        st = copy.deepcopy(client['steps'][k])
        slot = rng.choice(slots)
        if slot[0] == 'd':
            d_ = slot[2]
            st['kw'][slot[1]] = _vary(rng, d_ if isinstance(d_, (bool, int)) else {'f': fhex(float(d_))})
        else:
            holder = st['args'] if slot[0] == 'a' else st['kw']
            holder[slot[1]] = _vary(rng, holder[slot[1]])
        st['probe'] = True
        st['variant_of'] = k
        client['steps'].append(st)


def _defaulted_options(st):
    """(name, default) of numeric / boolean keyword options of the called function that the call leaves at their default."""
    import inspect
    try:
        f = _pkg_attr(st['fn'])
        f = getattr(f, 'py_func', getattr(f, '__wrapped__', f))
        params = list(inspect.signature(f).parameters.values())
    except Exception:
        return []
    out = []
    for pos, p_ in enumerate(params):
        if pos < len(st['args']) or p_.name in st['kw'] or p_.default is inspect.Parameter.empty:
            continue
        if isinstance(p_.default, bool) or (isinstance(p_.default, (int, float)) and not isinstance(p_.default, bool)):
            if p_.name in ('plot', 'debug'):
                continue          # these switch the return type, not an option of the computation
            out.append((p_.name, p_.default))
    return out


def _is_literal(a):
    return isinstance(a, bool) or (isinstance(a, int) and not isinstance(a, bool)) or (isinstance(a, dict) and 'f' in a)


def _vary(rng, a):
    if isinstance(a, bool):
        return not a
    if isinstance(a, int):
        return max(1, a + rng.choice([-1, 1, 2]))
    v = unhex(a['f'])
    w = rng.choice([v * 0.5, v * 2.0, 0.9, 0.1, 0.5]) if v != 0 else 0.1
    return {'f': fhex(w if w != v else v * 0.75)}


def gen_plan(rng, tier='quick', traces=None):
    pool = []
    ncurves = rng.choice([1, 1, 2, 2, 3])
    fams = rng.sample(curves.FAMILIES, rng.randint(2, len(curves.FAMILIES)))
    layouts_enabled = rng.sample(worlds.LAYOUTS, rng.randint(1, len(worlds.LAYOUTS)))
    last_n = None
    for _ in range(ncurves):
        n = last_n if (last_n and rng.random() < 0.4) else _draw_n(rng, tier)
        if traces and rng.random() < 0.2:
            name, arr = rng.choice(traces)
            a = rng.randrange(0, max(1, len(arr) - n - 1))
            stride = rng.choice([1, 1, 3, 10])
            pts = [[float(p[0]), float(p[1])] for p in arr[a::stride][:n]]
            fam = 'trace:' + name
            if len(pts) < 8:
                fam, pts = curves.gen_curve(rng, n, rng.choice(fams), scale=False)
        else:
            fam, pts = curves.gen_curve(rng, n, rng.choice(fams), scale=rng.random() < 0.15)
        curves_so_far = [o for o in pool if o['kind'] == 'curve']
        sib = None
        if curves_so_far and rng.random() < 0.45:
            # a look-alike of an earlier curve: same x grid, same end points, some interior y values changed
            sib = rng.randrange(len(curves_so_far))
            src = [[unhex(x), unhex(y)] for x, y in curves_so_far[sib]['points']]
            m = len(src)
            a = rng.randrange(1, max(2, m - 1))
            b = rng.randint(a, max(a, m - 2))
            mode = rng.choice(['scale', 'noise', 'flat', 'ulp'])
            pts = [list(p) for p in src]
            for i in range(a, b + 1):
                if 0 < i < m - 1:
                    if mode == 'scale':
                        pts[i][1] = src[i][1] * 1.5
                    elif mode == 'noise':
                        pts[i][1] = max(src[i][1] + rng.uniform(-0.3, 0.3) * (abs(src[i][1]) + 1.0), 0.0)
                    elif mode == 'ulp':
                        pts[i][1] = src[i][1] * (1.0 + rng.choice([1, 2, 5, 40]) * 2.0 ** -40)    # same to ~11 digits
                    else:
                        pts[i][1] = src[a][1]
            fam = 'sibling-of-%d:%s' % (sib, mode)
        last_n = len(pts)
        lay = rng.choice(layouts_enabled)
        if lay.startswith('int64') and not worlds.integral(pts):
            # integer-valued version of the curve (cache sizes / counts): x -> distinct integers, y -> rounded
            sy = rng.choice([1.0, 10.0, 100.0, 1000.0])
            top = max(abs(p[1]) for p in pts) or 1.0
            if top * sy > 2 ** 19:
                sy = 2 ** 19 / top
            q = []
            lastx = None
            for k, (x, y) in enumerate(pts):
                xi = float(round(x)) if abs(x) < 2 ** 19 else float(k)
                if lastx is not None and xi <= lastx:
                    xi = lastx + 1.0
                q.append([xi, float(round(y * sy))])
                lastx = xi
            pts = q
            if not worlds.integral(pts):
                lay = rng.choice([l for l in layouts_enabled if not l.startswith('int64')] or ['C'])
        pool.append({'kind': 'curve', 'family': fam, 'points': [[fhex(x), fhex(y)] for x, y in pts],
                     'layout': lay, 'salt': rng.randrange(1 << 30), 'sibling': sib, 'readonly': False})
    for ci in range(ncurves):
        n = len(pool[ci]['points'])
        if n >= 5 and rng.random() < 0.8:
            shape = rng.random()
            if shape < 0.12 and n >= 6:
                # a consecutive run of knees (what a detector returns on a smooth bend), possibly long
                a = rng.randrange(1, n - 2)
                vals = list(range(a, min(n - 1, a + rng.choice([2, 3, 5, 16, 20, 30]))))
            elif shape < 0.17:
                vals = list(range(1, n - 1))                    # every interior point
            elif shape < 0.22 and n >= 8:
                vals = list(range(1, n - 1, 2))                 # every other point
            else:
                k = rng.randint(1, min(7, n - 2)) if rng.random() < 0.95 else 0
                vals = sorted(rng.sample(range(1, n - 1), k))
            pool.append({'kind': 'idx', 'curve': ci, 'values': vals, 'layout': rng.choice(['C', 'C', 'view', 'list', 'i32']),
                         'salt': rng.randrange(1 << 30), 'readonly': False})
        if n >= 5 and rng.random() < 0.7:
            k = rng.randint(1, min(5, n - 2))
            idx = sorted(rng.sample(range(1, n - 1), k))
            whole = str(pool[ci].get('layout', '')).startswith('int64')
            pts = [[unhex(pool[ci]['points'][i][0]) + (rng.choice([0.0, 0.0, 1.0, -1.0]) if whole else rng.choice([0.0, 0.0, 0.5, -0.25])),
                    unhex(pool[ci]['points'][i][1])] for i in idx]
            elay = rng.choice(['C', 'F', 'view'])
            if not whole and rng.random() < 0.25:
                # expected knees noted down as whole numbers (an integer array) next to a float trace
                pts = [[float(round(a)), float(round(b))] for a, b in pts]
                if worlds.integral(pts):
                    elay = rng.choice(['int64', 'int64+F', 'int64+view'])
            if whole and rng.random() < 0.6 and worlds.integral(pts):
                elay = rng.choice(['int64', 'int64+F', 'int64+view'])      # expected knee points as integers too
            pool.append({'kind': 'expected', 'curve': ci, 'points': [[fhex(x), fhex(y)] for x, y in pts],
                         'layout': elay, 'salt': rng.randrange(1 << 30), 'readonly': False})
    if rng.random() < 0.6:
        vals = rng.sample([0.5, 0.1, 0.05, 0.01, 0.001, 0.0001], rng.randint(2, 4))
        pool.append({'kind': 'tlist', 'values': [fhex(v) for v in vals], 'layout': 'list'})
    ctx = catalog.Ctx(rng, pool)
    nclients = rng.choice([1, 2, 2, 3, 3, 4])
    kinds_enabled = rng.sample(['pipeline', 'primitives', 'streaming', 'zclient'], rng.randint(1, 4))
    clients = []
    for _ in range(nclients):
        kind = rng.choice(kinds_enabled) if rng.random() > (0.05 if not FOCUS_FNS else 0.12) else 'soak'
        clients.append(catalog.CLIENT_KINDS[kind](ctx))
    for cl in clients:
        _add_sibling_repeats(rng, cl, pool)
        _add_option_variants(rng, cl)
    # the scheduler: interleave at call granularity, with duplicate deliveries
    dup_rate = rng.choice([0.0, 0.05, 0.15, 0.3])
    nxt = [0] * nclients
    schedule = []
    done = []
    while True:
        runnable = [c for c in range(nclients) if nxt[c] < len(clients[c]['steps'])]
        if not runnable:
            break
        dupable = [(c, k) for (c, k) in done if not clients[c]['steps'][k].get('nodup')]
        if dupable and rng.random() < dup_rate:
            c, k = rng.choice(dupable)
            schedule.append({'c': c, 'k': k, 'dup': True})
            continue
        c = rng.choice(runnable)
        schedule.append({'c': c, 'k': nxt[c]})
        done.append((c, nxt[c]))
        nxt[c] += 1
    dupable = [(c, k) for (c, k) in done if not clients[c]['steps'][k].get('nodup')]
    for c, k in rng.sample(dupable, min(len(dupable), rng.randint(0, 4))):
        schedule.append({'c': c, 'k': k, 'dup': True})
    # per-call pristine reference for a sample of steps (fork per call is the cost)
    iso = {}
    budget_iso = rng.choice([0, 0, 3, 6, 10])
    cand = [(c, k) for c in range(nclients) for k, stp in enumerate(clients[c]['steps']) if not stp['fn'].startswith('caller.')]
    chosen = rng.sample(cand, min(len(cand), budget_iso))
    chosen += [(c, k) for c, k in cand if clients[c]['steps'][k].get('probe') and (c, k) not in chosen]
    for c, k in chosen:
        iso.setdefault(str(c), []).append(k)
    for v in iso.values():
        v.sort()
    return {'property': 'C20', 'tier': tier, 'pool': pool, 'clients': clients, 'schedule': schedule, 'iso': iso,
            'poison': rng.random() < 0.8, 'poison_seed': rng.randrange(1 << 30), 'debug_logging': rng.random() < 0.3}


# ----------------------------------------------------------------------------- execution

class _Skip(Exception):
    pass


_WORLD = 'ref'
_CLOCK = None
FOCUS_FNS = frozenset()      # client-level calls that reach code changed relative to the baseline (set by Adapter.prepare)


def _materialise(pool, world):
    """Build the argument objects.  world 'ref': fresh C-contiguous float64 / int64 copies;
    world 'sim': the drawn layouts."""
    objs = []
    for o in pool:
        if o['kind'] in ('curve', 'expected'):
            vals = [[unhex(x), unhex(y)] for x, y in o['points']]
            lay = o['layout'] if world == 'sim' else 'C'
            arr = worlds.deliver(vals, lay, o.get('salt', 0))
            if world == 'sim' and o.get('readonly'):
                arr.flags.writeable = False       # a memory-mapped trace, a pandas copy-on-write block, a shared read-only buffer
            objs.append(arr)
        elif o['kind'] == 'idx':
            if o['layout'] == 'list':
                objs.append([int(v) for v in o['values']])
            elif o['layout'] == 'view' and world == 'sim':
                big = np.full(2 * len(o['values']) + 3, -12345, dtype=np.int64)
                v = big[1:1 + 2 * len(o['values']):2]
                v[...] = o['values']
                objs.append(v)
            elif o['layout'] == 'i32' and world == 'sim':
                objs.append(np.array(o['values'], dtype=np.int32))
            else:
                objs.append(np.array(o['values'], dtype=np.int64))
            if world == 'sim' and o.get('readonly') and isinstance(objs[-1], np.ndarray):
                objs[-1].flags.writeable = False
        elif o['kind'] == 'tlist':
            objs.append([unhex(v) for v in o['values']])
        else:
            raise ValueError(o['kind'])
    return objs


def _pkg_attr(path):
    import kneeliverse
    obj = kneeliverse
    for part in path.split('.'):
        obj = getattr(obj, part)
    return obj


def _resolve(spec, objs, results):
    if isinstance(spec, dict):
        if 'pool' in spec:
            if spec['pool'] >= len(objs):
                raise _Skip()
            return objs[spec['pool']]
        if 'res' in spec:
            j = spec['res']
            if j not in results or results[j][0] != 'ok':
                raise _Skip()
            v = results[j][1]
            for g in spec.get('get', []):
                v = v[g]
            return v
        if 'f' in spec:
            return unhex(spec['f'])
        if 'list' in spec:
            return [_resolve(s, objs, results) for s in spec['list']]
        if 'dict' in spec:
            return {}
        if 'enum' in spec:
            return _pkg_attr(spec['enum'])
        if 'fn' in spec:
            return _pkg_attr(spec['fn'])
        if 'col' in spec:
            col = _resolve(spec['col'], objs, results)[:, spec['c']]
            if spec.get('int_in_sim') and _WORLD == 'sim' and col.dtype.kind == 'f' and len(col) \
                    and np.all(col == np.round(col)) and np.all(np.abs(col) < 2 ** 20):
                col = col.astype(np.int64)     # e.g. integer cache sizes on x, float miss ratios on y
            return col
        if 'take' in spec:
            a = _resolve(spec['take'][0], objs, results)
            i = _resolve(spec['take'][1], objs, results)
            return a[np.asarray(i).astype(int)] if not isinstance(i, np.ndarray) or i.dtype.kind != 'i' else a[i]
        if 'slice' in spec:
            return _resolve(spec['slice'][0], objs, results)[spec['slice'][1]:spec['slice'][2]]
        if 'row' in spec:
            return _resolve(spec['row'][0], objs, results)[spec['row'][1]]
        if 'concat' in spec:
            parts = []
            for s in spec['concat']:
                v = _resolve(s, objs, results)
                parts.extend(int(x) for x in (v if isinstance(v, (list, np.ndarray)) else [v]))
            arr = np.array(parts, dtype=np.int64)
            if spec.get('ro') and _WORLD == 'sim':
                arr.flags.writeable = False      # the caller's own index array, delivered read-only in the simulated world
            return arr
        raise ValueError('bad spec %r' % (spec,))
    return spec


def _n_of(objs):
    return max([len(o) for o in objs if isinstance(o, (np.ndarray, list, tuple)) and not isinstance(o, str)] + [8])


def _call_step(step, objs, results, findings, where, type_only, iso=None):
    """Execute one step.  Returns ('ok', value) | ('exc', enc) | ('div',) | ('skip',)."""
    try:
        args = [_resolve(a, objs, results) for a in step['args']]
        kw = {k: _resolve(v, objs, results) for k, v in step['kw'].items()}
    except _Skip:
        return ('skip',)
    except Exception as e:       # caller-side op failed (e.g. indexing with a float result): a value, same in all worlds
        return ('exc', worlds.enc_exc(e, True))
    fn = step['fn']
    if fn.startswith('caller.'):
        try:
            if fn == 'caller.take':
                i = np.asarray(args[1])
                sub = args[0][i.astype(int)]
                if sub.ndim == 2 and len(sub) > 1 and not np.all(np.diff(sub[:, 0].astype(float)) > 0):
                    # the reduction repeats an index (rdp_fixed with length >= n does: C05's business), so the
                    # reduced "curve" has a repeated x and is not a valid input for anything downstream; a caller
                    # would stop here, and so does the program (dependent steps are skipped in every world)
                    return ('exc', ('exc', 'InvalidCurve'))
                if sub.ndim == 2 and len(sub) > 400:
                    # the reduction kept (almost) every point of a long trace; the detectors downstream are quadratic
                    # or worse, so the program stops here (in every world alike)
                    return ('exc', ('exc', 'ReductionTooLong'))
                return ('ok', sub)
            if fn == 'caller.soak':
                return _soak(args, findings, where, type_only)
            if fn == 'caller.laysoak':
                return _laysoak(args, findings, where)
            if fn == 'caller.alloc':
                return ('ok', np.zeros((int(args[0]), 2)))
            if fn == 'caller.fresh':
                src, factor, flip = args
                arr = np.empty((len(src), 2))
                arr[:, 0] = src[:, 0]
                arr[:, 1] = (src[::-1, 1] if flip else src[:, 1]) * factor
                return ('ok', arr)
            if fn == 'caller.drop':
                j = int(args[0])
                if j in results:
                    results[j] = ('dropped',)      # the caller lets go of the array; its memory may be reused
                return ('ok', None)
            if fn == 'caller.fill':
                buf, src, factor, flip = args
                buf[:, 0] = src[:, 0]
                buf[:, 1] = (src[::-1, 1] if flip else src[:, 1]) * factor
                return ('ok', buf)
            raise ValueError(fn)
        except Exception as e:
            return ('exc', worlds.enc_exc(e, type_only))
    # the step budget follows the size of this call's own arguments (not of the largest object in the pool)
    call_n = _n_of([a_ for a_ in list(args) + list(kw.values())])
    o = _invoke(fn, args, kw, budget.limit_for(call_n), findings, where, type_only)
    if iso is not None:
        # the same call, by value, in a process that has never run anything else
        ref = iso.call(fn, args, kw, budget.limit_for(call_n), type_only)
        if ref[0] == 'harness' and 'cannot transfer' in str(ref[1]):
            return o          # an argument that cannot be pickled: no pristine-process verdict for this call
        if ref[0] == 'harness':
            raise isolate.ChildFailed(ref[1])
        if _exc_type(ref) != _exc_type(_enc_outcome(o)):
            findings.append({'oracle': 'P2', 'key': 'P2iso:%s' % fn, 'where': where, 'fn': fn,
                             'detail': {'in_client_history': _short(_enc_outcome(o)), 'pristine_process': _short(ref)}})
    return o


def _kn(p, rr, k=3):
    """sorted unique interior knee indices for a curve of len(p) points"""
    n = len(p)
    k = max(1, min(k, n - 2))
    return np.array(sorted(rr.sample(range(1, n - 1), k)), dtype=np.int64)


def _enum(path):
    return _pkg_attr(path)


# one public function per entry, with a builder (points, rng) -> positional arguments; used by the soak and
# layout-soak caller ops.  Covers every module and most public functions that take a point array.
SOAK_TARGETS = {
    'convex_hull.graham_scan': lambda p, rr: (p,),
    'convex_hull.graham_scan_lower': lambda p, rr: (p,),
    'convex_hull.graham_scan_upper': lambda p, rr: (p,),
    'linear_fit.linear_fit_points': lambda p, rr: (p,),
    'linear_fit.linear_fit': lambda p, rr: (p[:, 0], p[:, 1]),
    'linear_fit.r2_points': lambda p, rr: (p,),
    'linear_fit.r2': lambda p, rr: (p[:, 0], p[:, 1]),
    'linear_fit.linear_fit_residuals_points': lambda p, rr: (p,),
    'linear_fit.linear_hv_residuals_points': lambda p, rr: (p,),
    'linear_fit.linear_fit_transform_points': lambda p, rr: (p, rr.random() < 0.5),
    'linear_fit.linear_r2_points': lambda p, rr: (p, (1.0, -0.5)),
    'linear_fit.rmspe_points': lambda p, rr: (p, (1.0, -0.5)),
    'linear_fit.rmsle_points': lambda p, rr: (p, (1.0, 0.5)),
    'linear_fit.smape_points': lambda p, rr: (p, (1.0, -0.5)),
    'linear_fit.rpd_points': lambda p, rr: (p, (1.0, -0.5)),
    'linear_fit.rmse_points': lambda p, rr: (p, (1.0, -0.5)),
    'linear_fit.shortest_distance_points': lambda p, rr: (p, p[0], p[-1]),
    'menger.knee': lambda p, rr: (p,),
    'menger.multi_knee': lambda p, rr: (p,),
    'curvature.knee': lambda p, rr: (p,),
    'curvature.multi_knee': lambda p, rr: (p,),
    'dfdt.knee': lambda p, rr: (p,),
    'dfdt.multi_knee': lambda p, rr: (p,),
    'dfdt.get_knee': lambda p, rr: (p[:, 0], p[:, 1]),
    'kneedle.knee': lambda p, rr: (p,),
    'kneedle.knees': lambda p, rr: (p,),
    'kneedle.multi_knee': lambda p, rr: (p,),
    'kneedle.differences': lambda p, rr: (p, _enum('kneedle.Direction.Decreasing'), _enum('kneedle.Concavity.Clockwise')),
    'lmethod.get_knee': lambda p, rr: (p[:, 0], p[:, 1]),
    'lmethod.knee': lambda p, rr: (p,),
    'lmethod.multi_knee': lambda p, rr: (p,),
    'zmethod.getPoints': lambda p, rr: (p,),
    'zmethod.knees': lambda p, rr: (p,),
    'zmethod.knees2': lambda p, rr: (p,),
    'knee_ranking.rank': lambda p, rr: (p[:, 1],),
    'knee_ranking.distances': lambda p, rr: (p[0], p),
    'knee_ranking.slope_ranking': lambda p, rr: (p, _kn(p, rr)),
    'knee_ranking.smooth_ranking': lambda p, rr: (p, _kn(p, rr), _enum('knee_ranking.ClusterRanking.linear')),
    'clustering.single_linkage': lambda p, rr: (p, 0.2),
    'clustering.complete_linkage': lambda p, rr: (p, 0.2),
    'clustering.centroid_linkage': lambda p, rr: (p, 0.2),
    'clustering.average_linkage': lambda p, rr: (p, 0.2),
    'rdp.rdp': lambda p, rr: (p, 0.05),
    'rdp.rdp_fixed': lambda p, rr: (p, 3),
    'rdp.grdp': lambda p, rr: (p, 0.05),
    'rdp.mp_grdp': lambda p, rr: (p, 0.05, 4),
    'rdp.min_point_rdp': lambda p, rr: (p, [0.01, 0.001], 4),
    'rdp.compute_removed_points': lambda p, rr: (p, np.array([0, len(p) // 2, len(p) - 1])),
    'evaluation.compute_global_rmse': lambda p, rr: (p, [0, len(p) // 2, len(p) - 1]),
    'evaluation.compute_global_cost': lambda p, rr: (p, [0, len(p) // 2, len(p) - 1]),
    'evaluation.mip': lambda p, rr: (p, np.array([0, 1, len(p) // 2, len(p) - 1])),
    'evaluation.get_neighbourhood_points': lambda p, rr: (p, len(p) - 1, 0, 0.9),
    'evaluation.get_neighbourhood_fast_points': lambda p, rr: (p, len(p) - 1, 0, 0.9),
    'evaluation.accuracy_knee': lambda p, rr: (p, _kn(p, rr, 2)),
    'evaluation.accuracy_trace': lambda p, rr: (p, _kn(p, rr, 2)),
    'evaluation.mae': lambda p, rr: (p, _kn(p, rr, 2), p[1:3]),
    'evaluation.rmspe': lambda p, rr: (p, _kn(p, rr, 2), p[1:3]),
    'evaluation.cm': lambda p, rr: (p, _kn(p, rr, 2), p[1:3]),
    'postprocessing.triangle_area': lambda p, rr: (p[:3],),
    'postprocessing.filter_worst_knees': lambda p, rr: (p, _kn(p, rr)),
    'postprocessing.filter_corner_knees': lambda p, rr: (p, _kn(p, rr)),
    'postprocessing.select_corner_knees': lambda p, rr: (p, _kn(p, rr)),
    'postprocessing.rank_corners': lambda p, rr: (p, _kn(p, rr)),
    'postprocessing.rank_corners_triangle': lambda p, rr: (p, _kn(p, rr)),
    'postprocessing.filter_clusters': lambda p, rr: (p, _kn(p, rr), _pkg_attr('clustering.single_linkage'), 0.3),
    'postprocessing.filter_clusters_corners': lambda p, rr: (p, _kn(p, rr), _pkg_attr('clustering.single_linkage'), 0.3),
    'postprocessing.add_points_even_knees': lambda p, rr: (p, _kn(p, rr)),
}


def _soak(args, findings, where, type_only):
    """A long-lived process: one public function called on `count` distinct small inputs, then the first
    inputs again.  Bounded memos and buffers with faulty eviction only show after hundreds of calls."""
    target, count, seed, m = args
    rr = random.Random(seed)
    build = SOAK_TARGETS[target]
    limit = budget.limit_for(m)
    firsts = []
    recent = []
    mid_bad = False
    acc = []
    for i in range(int(count)):
        x = 0.0
        rows = []
        for _ in range(int(m)):
            x += rr.choice([1.0, 1.0, 2.0, 0.5])
            rows.append([x, float(rr.randint(0, 10 ** 6)) / 64.0])
        pts = np.array(rows)
        argv = list(build(pts, random.Random(seed + i)))
        e = _enc_outcome(_invoke(target, argv, {}, limit, findings, where, type_only))
        if i < 16:
            firsts.append((pts, e, i))
        recent.append((pts, e, i))
        if len(recent) > 24:
            recent.pop(0)
        if _CLOCK is not None and i % max(1, int(count) // 9) == 0 and i:
            # time passes in the middle of the job, in steps below and above typical expiry times, so that bounded
            # or time-limited state is partly expired when an input from a little earlier comes back
            _CLOCK.jump(rr.choice([7.0, 70.0, 700.0, 1300.0, 1300.0, 4000.0, 40000.0]))
        if i % 37 == 36:
            pts0, e0, i0 = recent[0]
            e2 = _enc_outcome(_invoke(target, list(build(pts0, random.Random(seed + i0))), {}, limit, findings, where, type_only))
            if e2 != e0 and not mid_bad:
                mid_bad = True
                findings.append({'oracle': 'P2', 'key': 'P2dup:%s' % target, 'where': where, 'fn': target,
                                 'detail': {'after': 'an input from %d calls earlier, re-issued in the middle of %d calls on distinct inputs' % (i - i0, count),
                                            'first': _short(e0), 'again': _short(e2)}})
        if i % 97 == 0:
            acc.append(sha(e)[:8])
    bad = 0
    if _CLOCK is not None:
        _CLOCK.jump(90000.0)          # a day later: time-based expiry / purges run before the early inputs come back
    for pts, e, i0 in firsts:
        e2 = _enc_outcome(_invoke(target, list(build(pts, random.Random(seed + i0))), {}, limit, findings, where, type_only))
        if e2 != e:
            bad += 1
            if bad == 1:
                findings.append({'oracle': 'P2', 'key': 'P2dup:%s' % target, 'where': where, 'fn': target,
                                 'detail': {'after': '%d calls on distinct inputs in one process' % count,
                                            'first': _short(e), 'again': _short(e2)}})
    return ('ok', [target, int(count), bad] + acc)


def _laysoak(args, findings, where):
    """Delivery faults at volume: one public function on `count` distinct small inputs, each handed over
    C-contiguous and in another layout / dtype in the same process; the two results must be equal by value.
    (Numeric kernels switch code paths with size and contiguity; a handful of calls per run does not sample that.)"""
    target, count, seed, m, layout = args
    rr = random.Random(seed)
    build = SOAK_TARGETS[target]
    limit = budget.limit_for(m)
    integral = layout.startswith('int64')
    bad = 0
    acc = []
    for i in range(int(count)):
        x = 0.0
        rows = []
        for _ in range(int(m)):
            x += rr.choice([1.0, 1.0, 2.0, 3.0] if integral else [1.0, 1.0, 2.0, 0.5])
            rows.append([x, float(rr.randint(0, 10 ** 5)) if integral else float(rr.randint(0, 10 ** 6)) / 64.0])
        c = np.array(rows)
        alt = worlds.deliver(rows, layout, rr.randrange(1 << 30))
        e1 = _by_value(_enc_outcome(_invoke(target, list(build(c, random.Random(seed + i))), {}, limit, findings, where, integral)))
        e2 = _by_value(_enc_outcome(_invoke(target, list(build(alt, random.Random(seed + i))), {}, limit, findings, where, integral)))
        if i % 53 == 0:
            acc.append(sha(e1)[:8])
        if e1 != e2:
            bad += 1
            if bad == 1:
                findings.append({'oracle': 'P2', 'key': 'P2:%s' % target, 'where': where, 'fn': target,
                                 'detail': {'layout': layout, 'points': c.tolist(), 'C_contiguous': _short(e1), 'delivered': _short(e2)}})
    return ('ok', [target, layout, int(count), bad] + acc)


CURRENT_CALL = [None]      # the client-level call in progress (read by checks/focusmap.py)


def _invoke(fn, args, kw, limit, findings, where, type_only):
    CURRENT_CALL[0] = fn
    try:
        f = _pkg_attr(fn)
        st, val = budget.run(limit, f, *args, **kw)
        if st == 'diverged':
            return ('div',)
        return ('ok', val)
    except BaseException as e:
        if isinstance(e, (isolate.ChildFailed, MemoryError)) or type(e).__name__ == 'SimBudgetExceeded':
            raise
        if isinstance(e, RecursionError):
            # running out of stack and running out of step budget are the same outcome: the call did not finish
            # (the worlds differ in stack depth per call level because of the monitor's wrapper frames)
            return ('div',)
        if worlds.link_witness(e) or worlds.object_attr_witness(e, args, kw, _pkg_attr(fn)):
            site = worlds.innermost_package_frame(e)
            if site is not None:
                findings.append({'oracle': 'D', 'key': _link_key(site, e), 'alt_keys': [_link_key(s_, e) for s_ in _package_frames(e)],
                                 'where': where, 'fn': fn, 'detail': '%s: %s' % (type(e).__name__, str(e)[:200])})
        return ('exc', worlds.enc_exc(e, type_only))


def _package_frames(e):
    out = []
    tb = e.__traceback__
    while tb is not None:
        fn = tb.tb_frame.f_code.co_filename
        if 'kneeliverse' in fn:
            out.append((fn.rsplit('/', 1)[-1][:-3], tb.tb_frame.f_code.co_name))
        tb = tb.tb_next
    return out


def _link_key(site, e):
    """site + exception type + the name that failed to resolve (not the whole message, which changes with
    unrelated edits such as a renamed parameter)."""
    import re
    msg = str(e)
    what = ''
    if isinstance(e, NameError):
        m = re.search(r"name '([^']+)'", msg)
        what = m.group(1) if m else ''
    elif isinstance(e, AttributeError):
        m = re.search(r"module '([^']+)' has no attribute '([^']+)'", msg)
        what = '%s.%s' % m.groups() if m else ''
        if not m and getattr(e, 'name', None) is not None:
            what = '<%s>.%s' % (type(getattr(e, 'obj', None)).__name__, e.name)
    else:
        m = re.match(r"\s*([\w\.<>]+)\(\)", msg)
        what = m.group(1) if m else ''
    return 'link:%s.%s:%s:%s' % (site[0], site[1], type(e).__name__, what)


def _iso_do(msg):
    fn, args, kw, limit, type_only = msg
    return _enc_outcome(_invoke(fn, args, kw, limit, [], None, type_only))


class CallServer(object):
    """A process forked from the pristine run process that never executes library code itself;
    for every request it forks a grandchild that performs exactly one public call."""

    def __init__(self):
        import os
        self.req_r, self.req_w = os.pipe()
        self.res_r, self.res_w = os.pipe()
        self.pid = os.fork()
        if self.pid == 0:
            code = 0
            try:
                os.close(self.req_w)
                os.close(self.res_r)
                self._serve()
            except BaseException:
                code = 3
            finally:
                os._exit(code)
        os.close(self.req_r)
        os.close(self.res_w)
        self.calls = 0

    @staticmethod
    def _write(fd, obj):
        import os
        import pickle
        import struct
        data = pickle.dumps(obj, protocol=4)
        data = struct.pack('<Q', len(data)) + data
        while data:
            n = os.write(fd, data)
            data = data[n:]

    @staticmethod
    def _read(fd):
        import os
        import pickle
        import struct
        head = b''
        while len(head) < 8:
            b = os.read(fd, 8 - len(head))
            if not b:
                return None
            head += b
        n = struct.unpack('<Q', head)[0]
        buf = b''
        while len(buf) < n:
            b = os.read(fd, min(1 << 16, n - len(buf)))
            if not b:
                return None
            buf += b
        return pickle.loads(buf)

    def _serve(self):
        while True:
            msg = self._read(self.req_r)
            if msg is None:
                return
            try:
                out = isolate.call(_iso_do, (msg,), timeout=120)
            except Exception as e:
                out = ('harness', str(e)[-500:])
            self._write(self.res_w, out)

    def call(self, fn, args, kw, limit, type_only):
        try:
            self._write(self.req_w, (fn, args, kw, limit, type_only))
        except Exception as e:      # unpicklable argument: no verdict for this call
            return ('harness', 'cannot transfer arguments: %s' % e)
        self.calls += 1
        out = self._read(self.res_r)
        if out is None:
            return ('harness', 'call server died')
        return out

    def close(self):
        import os
        try:
            os.close(self.req_w)
            os.close(self.res_r)
            os.waitpid(self.pid, 0)
        except Exception:
            pass


def _enc_outcome(o):
    """(status, value by value, dtype-kind signature).  The third element is compared only between
    executions that received the same representation of the arguments."""
    if o[0] == 'ok':
        return ('ok', worlds.enc(o[1]), worlds.kind_of(o[1]))
    return o


def _by_value(e):
    return e[:2] if e[0] == 'ok' else _exc_type(e)


def _exc_type(e):
    """Exceptions are compared by type between executions that received different representations of the
    arguments (layout, dtype, contiguity after pickling): messages may legitimately quote them."""
    if e[0] == 'exc' and isinstance(e[1], tuple) and len(e[1]) >= 2:
        return ('exc', (e[1][0], e[1][1]))
    return e


def run_ref_client(plan, c):
    """W_ref: one client alone, plain world.  Executed in a forked child of the pristine run
    process.  For the steps listed in plan['iso'][c] the call is additionally performed, by
    value, in a process that has never run anything else (call server)."""
    global _WORLD
    _WORLD = 'ref'
    objs = _materialise(plan['pool'], 'ref')
    results = {}
    out = {}
    findings = []
    type_only = _type_only(plan)
    probe = set((plan.get('iso') or {}).get(str(c), []))
    order = [e['k'] for e in plan['schedule'] if e['c'] == c and not e.get('dup')]
    for k in order:
        if k >= len(plan['clients'][c]['steps']) or k in results:
            continue
        step = plan['clients'][c]['steps'][k]
        iso = _SERVER if (k in probe and _SERVER is not None) else None
        o = _call_step(step, objs, results, findings, [None, c, k], type_only, iso)
        results[k] = o
        out[k] = _enc_outcome(o)
    bufs = [results[k][1] for k in results if results[k][0] == 'ok' and plan['clients'][c]['steps'][k]['fn'] == 'caller.alloc']
    for k in sorted(results):
        if results[k][0] == 'ok' and any(_aliases(results[k][1], b) for b in bufs):
            continue
        if (results[k][0] == 'ok' and _has_array(results[k][1]) and _enc_outcome(results[k]) != out[k]
                and not plan['clients'][c]['steps'][k]['fn'].startswith('caller.')):
            f0 = plan['clients'][c]['steps'][k]['fn']
            findings.append({'oracle': 'P3', 'key': 'P3:%s' % f0, 'where': [None, c, k], 'fn': f0,
                             'detail': 'the value returned by %s (client %d step %d) changed after it was returned' % (f0, c, k)})
    return out, findings, (_SERVER.calls if _SERVER is not None else 0)


_SERVER = None


def _type_only(plan):
    """Does any argument reach the simulated world as integers while the isolated world gets floats?  Then result
    dtype kinds and exception messages are not comparable between the worlds (values still are)."""
    if any(str(o.get('layout', '')).startswith('int64') for o in plan['pool']):
        return True
    return '"int_in_sim": true' in _json.dumps(plan['clients'])


def run_sim(plan, stats):
    """W_sim: one long-lived process, shared objects, layouts, poison, DUPs, purity monitor."""
    def bump(k, d=1):
        stats[k] = stats.get(k, 0) + d
    findings = []
    poison_sites = {}
    if plan.get('poison'):
        worlds.install_poison(plan['poison_seed'], poison_sites)
    import os as _os
    from . import core as _core
    try:
        import multiprocessing as _mp
        _mp.parent_process = lambda: None                       # "this is the main process"
        import multiprocessing.process as _mpp
        _mpp.parent_process = lambda: None
        _mp.current_process().name = 'MainProcess'
    except Exception:
        pass
    if _core.IMPORT_PID is not None:
        # the simulated world is "the process that imported the package" (the isolated world runs in forked workers):
        # code that remembers its importing pid behaves accordingly
        _os.getpid = lambda: _core.IMPORT_PID
    global _CLOCK
    clock = worlds.install_clock()
    _CLOCK = clock
    if plan.get('debug_logging'):
        worlds.enable_debug_logging()
        bump('fault.debug_logging_enabled')
    clock_rng = random.Random(plan.get('poison_seed', 0) ^ 0x5bd1)
    mon = worlds.Monitor()
    mon.install()
    import sys as _sys
    # every public call passes through one wrapper frame in this world: give recursive implementations the headroom
    # they have without the monitor
    _sys.setrecursionlimit(max(_sys.getrecursionlimit(), 1000) * 2 + 200)
    global _WORLD
    _WORLD = 'sim'
    objs = _materialise(plan['pool'], 'sim')
    for o in plan['pool']:
        bump('layout.' + o['kind'] + '.' + o.get('layout', '-'))
        if o.get('layout') not in ('C', 'list', None):
            bump('fault.delivery_' + o['layout'])
    base = [worlds.snapshot(o) for o in objs]
    type_only = _type_only(plan)
    results = {c: {} for c in range(len(plan['clients']))}
    encs = {c: {} for c in range(len(plan['clients']))}
    events = []
    ndup = 0
    live = set()
    for si, ent in enumerate(plan['schedule']):
        c, k = ent['c'], ent['k']
        if c >= len(plan['clients']) or k >= len(plan['clients'][c]['steps']):
            continue
        step = plan['clients'][c]['steps'][k]
        if ent.get('dup') and (k not in results[c] or step.get('nodup')):
            continue
        if not ent.get('dup') and k in results[c]:
            continue
        if clock is not None and clock_rng.random() < 0.3:
            clock.jump(clock_rng.choice([61.0, 3700.0, 90000.0, 8.0e5]))      # a minute, an hour, a day, nine days later
            bump('fault.clock_jump')
        nv = len(mon.violations)
        amb = _ambient()
        o = _call_step(step, objs, results[c], findings, [si, c, k], type_only)
        amb2 = _ambient()
        if amb2 != amb:
            changed = sorted(kk for kk in amb if amb[kk] != amb2[kk])
            findings.append({'oracle': 'P4', 'key': 'P4:%s:%s' % (step['fn'], ','.join(changed)), 'where': [si, c, k], 'fn': step['fn'],
                             'detail': '%s changed process-global state: %s' % (step['fn'], ', '.join(changed))})
        e = _enc_outcome(o)
        events.append([si, c, k, bool(ent.get('dup')), sha(e)[:16]])
        bump('steps')
        bump(('r.%s.' % o[0]) + step['fn'])
        if not step['fn'].startswith('caller.') and o[0] != 'skip':
            use = budget._state['count'] / float(budget.limit_for(_n_of(objs)))
            bump('budget_use.' + ('<1%' if use < 0.01 else '<10%' if use < 0.1 else '<50%' if use < 0.5 else '<100%' if use <= 1 else 'exceeded'))
        if o[0] == 'div':
            bump('budget_hits')
        # P1 at public call boundaries (not for a call cut by the step budget: its cleanup code was cut too)
        for (qual, arg, how) in ([] if o[0] == 'div' else mon.violations[nv:]):
            findings.append({'oracle': 'P1', 'key': 'P1:%s:%s' % (qual, arg), 'where': [si, c, k], 'fn': step['fn'],
                             'detail': '%s modified its argument %s (%s)' % (qual, arg, how)})
        # P1 on the shared pool
        for pi, obj in enumerate(objs):
            if worlds.snapshot(obj) != base[pi] and o[0] == 'div':
                base[pi] = worlds.snapshot(obj)
                continue
            if worlds.snapshot(obj) != base[pi]:
                findings.append({'oracle': 'P1', 'key': 'P1pool:%s' % step['fn'], 'where': [si, c, k], 'fn': step['fn'],
                                 'detail': 'shared pool object %d (%s) changed during %s' % (pi, plan['pool'][pi]['kind'], step['fn'])})
                base[pi] = worlds.snapshot(obj)
        if step['fn'] == 'caller.fill' and o[0] == 'ok':
            bump('fault.caller_buffer_refilled')
            for (cc, kk) in list(live):
                if _aliases(results[cc][kk][1], o[1]):
                    live.discard((cc, kk))
        # P3: a result, once returned, never changes (no view into a buffer the library reuses)
        for (cc, kk) in list(live):
            if results[cc][kk][0] != 'ok':
                live.discard((cc, kk))
                continue
            if results[cc][kk][0] == 'ok' and _enc_outcome(results[cc][kk]) != encs[cc][kk]:
                f0 = plan['clients'][cc]['steps'][kk]['fn']
                findings.append({'oracle': 'P3', 'key': 'P3:%s' % f0, 'where': [si, c, k], 'fn': step['fn'],
                                 'detail': 'the value returned earlier by %s (client %d step %d) changed during %s' % (f0, cc, kk, step['fn'])})
                live.discard((cc, kk))
        if ent.get('dup'):
            ndup += 1
            bump('dups')
            bump('fault.DUP_redelivery')
            if e != encs[c][k]:
                findings.append({'oracle': 'P2', 'key': 'P2dup:%s' % step['fn'], 'where': [si, c, k], 'fn': step['fn'],
                                 'detail': {'first': _short(encs[c][k]), 'again': _short(e)}})
        else:
            results[c][k] = o
            encs[c][k] = e
            if o[0] == 'ok' and (_has_array(o[1]) or isinstance(o[1], (list, dict))) and not step['fn'].startswith('caller.'):
                live.add((c, k))
        if len(findings) > 30:
            break
    for q, n in mon.calls.items():
        bump('fn.' + q, n)
    for s, n in poison_sites.items():
        bump('poison.' + s, n)
        bump('fault.poisoned_allocation', n)
    return encs, findings, events, {'dups': ndup, 'poison_hits': sum(poison_sites.values())}


def _arrays(v, depth=0):
    if isinstance(v, np.ndarray):
        return [v]
    fields = worlds.object_fields(v) if depth < 3 else None
    if fields is not None:
        v = fields
    if isinstance(v, (list, tuple, dict)) and depth < 3:
        out = []
        for x in (v.values() if isinstance(v, dict) else v):
            out.extend(_arrays(x, depth + 1))
        return out
    return []


def _aliases(v, buf):
    """Does result v (possibly) share memory with the caller-owned array buf?  A view of the caller's own
    buffer legitimately changes when the caller refills the buffer."""
    return any(np.may_share_memory(a, buf) for a in _arrays(v))


def _ambient():
    """Process-global state a pure function has no business changing."""
    import os
    import random as _random
    import sys as _sys
    # (warning filters and logger levels are deliberately not part of it: a library may configure them lazily without
    # any effect on results)
    return {
        'np.geterr': repr(sorted(np.geterr().items())),
        'cwd': os.getcwd(),
        'files(cwd)': repr(sorted((n, os.path.getsize(os.path.join('.', n)) if os.path.isfile(n) else -1) for n in os.listdir('.')))
        if os.environ.get('KNEESIM_RUNDIR') else '',
        'files(tmp)': repr(sorted(os.listdir(os.environ['TMPDIR']))) if os.environ.get('KNEESIM_RUNDIR') and os.environ.get('TMPDIR') else '',
        'environ': hash(tuple(sorted(os.environ.items()))),
        'random.state': hash(_random.getstate()),
        'np.random.state': hash(np.random.get_state()[1].tobytes()) ^ int(np.random.get_state()[2]),
    }


def _has_array(v, depth=0):
    if isinstance(v, np.ndarray):
        return True
    fields = worlds.object_fields(v) if depth < 3 else None
    if fields is not None:
        v = fields
    if isinstance(v, (list, tuple, dict)) and depth < 3:
        return any(_has_array(x, depth + 1) for x in (v.values() if isinstance(v, dict) else v))
    return False


def _short(e, lim=160):
    s = repr(e)
    return s if len(s) <= lim else s[:lim] + '...'


def witness_plans():
    """Fixed plans exhibiting findings recorded in known_findings.json by their specific input.  Keys of findings
    of a witness plan carry '@witness:<name>', so the entry suppresses nothing found elsewhere."""
    GiB = 2.0 ** 30
    xs = [1, 2, 4, 8, 16, 32, 64, 128, 256, 512]
    ys = [900, 700, 520, 400, 300, 230, 180, 150, 130, 120]
    pts = [[fhex(a * GiB), fhex(b * 1e6)] for a, b in zip(xs, ys)]
    pool = [{'kind': 'curve', 'family': 'witness', 'points': pts, 'layout': 'int64', 'salt': 1, 'sibling': None, 'readonly': False}]
    P0 = {'pool': 0}
    steps = [{'fn': 'knee_ranking.distances', 'args': [{'row': [P0, 0]}, P0], 'kw': {}},
             {'fn': 'convex_hull.graham_scan', 'args': [P0], 'kw': {}},
             {'fn': 'curvature.knee', 'args': [P0], 'kw': {}}]
    return [{'property': 'C20', 'tier': 'quick', 'witness': 'int64-overflow-GiB', 'pool': pool,
             'clients': [{'kind': 'witness', 'steps': [st]}], 'schedule': [{'c': 0, 'k': 0}], 'iso': {}, 'poison': False, 'poison_seed': 0}
            for st in steps]


def execute(plan, stats=None, want_events=True):
    """Run both worlds and compare.  Must be called in a process that has not executed library
    code beyond the fixed warm-up (the runner forks one child per run)."""
    global _SERVER
    st = stats if stats is not None else {}
    ref = {}
    ref_findings = []
    _SERVER = CallServer() if plan.get('iso') else None
    try:
        for c in range(len(plan['clients'])):
            try:
                ref[c], ff, ncalls = isolate.call(run_ref_client, (plan, c), timeout=300)
            except isolate.ChildFailed as e:
                if e.signal not in isolate.CRASH_SIGNALS:
                    raise
                name = isolate.CRASH_SIGNALS[e.signal]
                ref[c], ff, ncalls = {}, [{'oracle': 'CRASH', 'key': 'CRASH:' + name, 'where': [None, c, None], 'fn': None,
                                           'detail': 'client %d alone in a pristine process died with %s' % (c, name)}], 0
            ref_findings.extend(ff)
            st['forks'] = st.get('forks', 0) + 1
            st['iso_calls'] = st.get('iso_calls', 0) + ncalls
            st['fault.client_restarted_in_pristine_process'] = st.get('fault.client_restarted_in_pristine_process', 0) + 1
            st['fault.call_replayed_in_pristine_process'] = st.get('fault.call_replayed_in_pristine_process', 0) + ncalls
    finally:
        if _SERVER is not None:
            _SERVER.close()
        _SERVER = None
    encs, findings, events, info = run_sim(plan, st)
    type_only_plan = _type_only(plan)
    seen = set(f['key'] for f in findings)
    findings.extend(f for f in ref_findings if f['key'] not in seen)
    for c in sorted(encs):
        for k in sorted(encs[c]):
            if k in ref[c] and (_exc_type(encs[c][k]) != _exc_type(ref[c][k]) if not type_only_plan
                                else _by_value(encs[c][k]) != _by_value(ref[c][k])):
                fn = plan['clients'][c]['steps'][k]['fn']
                findings.append({'oracle': 'P2', 'key': 'P2:%s' % fn, 'where': [None, c, k], 'fn': fn,
                                 'detail': {'isolated_world': _short(ref[c][k]), 'simulated_world': _short(encs[c][k])}})
                break      # later steps of this client usually differ as a consequence
    shared = _shared_objects(plan)
    nonC = any(o.get('layout') not in ('C', 'list', None) for o in plan['pool'])
    nontrivial = (len(plan['clients']) >= 2 and shared and (nonC or info['poison_hits'] > 0) and info['dups'] > 0)
    for f in findings:
        f['step'] = f['where']
        if plan.get('witness'):
            f['key'] = '%s@witness:%s' % (f['key'], plan['witness'])
    return {'events': events if want_events else None, 'digest': sha([events, sorted(f['key'] for f in findings)]),
            'violations': findings, 'violation': findings[0] if findings else None,
            'nontrivial': bool(nontrivial), 'stats': st, 'cache_states': [sha([e[4] for e in events])] if events else []}


def _plan_calls(plan, fs):
    for cl in plan['clients']:
        for st in cl['steps']:
            if st['fn'] in fs:
                return True
            if st['fn'] in ('caller.soak', 'caller.laysoak') and st['args'] and st['args'][0] in fs:
                return True
    return False


def _shared_objects(plan):
    users = {}
    for c, cl in enumerate(plan['clients']):
        for s in cl['steps']:
            for i in _pool_refs(s):
                users.setdefault(i, set()).add(c)
    return any(len(u) >= 2 for u in users.values())


def _pool_refs(x):
    out = []
    if isinstance(x, dict):
        if 'pool' in x:
            out.append(x['pool'])
        for v in x.values():
            out.extend(_pool_refs(v))
    elif isinstance(x, list):
        for v in x:
            out.extend(_pool_refs(v))
    return out


# ----------------------------------------------------------------------------- minimisation

def _keys(plan):
    r = isolate.with_rundir(execute, (plan, None, False), timeout=400)
    return [f['key'] for f in r['violations']]


def shrink(plan, violation, deadline):
    import time
    from . import shrink as sh
    key = violation['key']

    def test(p):
        try:
            return key in _keys(p)
        except Exception:
            return False
    cur = copy.deepcopy(plan)
    # 1. schedule entries
    cur = sh.shrink_steps(cur, test, deadline, key='schedule')
    # 2. clients not scheduled any more -> empty programs (indices stay valid)
    used = set(e['c'] for e in cur['schedule'])
    cand = copy.deepcopy(cur)
    for c in range(len(cand['clients'])):
        if c not in used:
            cand['clients'][c]['steps'] = []
    if test(cand):
        cur = cand
    # 3. truncate client programs after their last scheduled step
    cand = copy.deepcopy(cur)
    for c in range(len(cand['clients'])):
        ks = [e['k'] for e in cand['schedule'] if e['c'] == c]
        cand['clients'][c]['steps'] = cand['clients'][c]['steps'][:max(ks) + 1 if ks else 0]
    if test(cand):
        cur = cand
    # 4. world dimensions: poison off, layouts -> C
    if time.time() < deadline and cur.get('poison'):
        cand = copy.deepcopy(cur)
        cand['poison'] = False
        if test(cand):
            cur = cand
    for pi in range(len(cur['pool'])):
        if time.time() > deadline:
            break
        if cur['pool'][pi].get('layout') not in ('C', 'list', None):
            cand = copy.deepcopy(cur)
            cand['pool'][pi]['layout'] = 'C'
            if test(cand):
                cur = cand
    # 5. curve points: drop trailing / leading points when the failure persists (indices in programs are
    #    literal, so only suffix truncation keeps them meaningful; failures that need them simply stay)
    for pi in range(len(cur['pool'])):
        o = cur['pool'][pi]
        if o['kind'] != 'curve':
            continue
        while len(cur['pool'][pi]['points']) > 6 and time.time() < deadline:
            cand = copy.deepcopy(cur)
            n = len(cand['pool'][pi]['points'])
            newn = max(6, n // 2 if n > 12 else n - 1)
            cand['pool'][pi]['points'] = cand['pool'][pi]['points'][:newn]
            for q in cand['pool']:
                if q.get('curve') == pi and q['kind'] == 'idx':
                    q['values'] = [v for v in q['values'] if v < newn - 1] or [1]
            if test(cand):
                cur = cand
            else:
                break
    return cur


def describe(plan):
    out = []
    for o in plan['pool']:
        if o['kind'] in ('curve', 'expected'):
            out.append({'kind': o['kind'], 'layout': o.get('layout'), 'points': [[unhex(x), unhex(y)] for x, y in o['points']]})
        elif o['kind'] == 'tlist':
            out.append({'kind': 'tlist', 'values': [unhex(v) for v in o['values']]})
        else:
            out.append({'kind': o['kind'], 'layout': o.get('layout'), 'values': o['values']})
    return out


# ----------------------------------------------------------------------------- adapter

# numba signatures the clients reach (measured over 1200 plans in both worlds); anything else is compiled
# lazily inside the run's child process (slower, never wrong)
_T = [('fA', 'fC'), ('fA', 'fA'), ('fC', 'fC'), ('fC', 'fA'), ('iA', 'fC'), ('fC', 'iA')]
WARM = {
    'r2': [(y, h, None) for y, h in _T[:4] + [_T[5]]] + [('fA', 'fA', 'enum'), ('fA', 'fC', 'enum'), ('fC', 'fC', 'enum'),
                                                        ('iA', 'fC', 'enum'), ('fC', 'iA', 'enum'), ('fC', 'fA', 'enum')],
    'rmse': [(y, h, None) for y, h in _T],
    'rmsle': [(y, h, None) for y, h in _T],
    'rmspe': [(y, h, None) for y, h in _T[:5]] + [('fA', 'iA', None)],
    'rpd': [(y, h, None) for y, h in _T] + [('fA', 'fC', 'eps'), ('fC', 'fC', 'eps'), ('iA', 'fC', 'eps')],
    'residuals': [(y, h, None) for y, h in _T[:5]] + [('iA', 'iC', None), ('fA', 'iA', None)],
    'smape': [(y, h, None) for y, h in _T[:5]] + [('fA', 'fC', 'eps'), ('fC', 'fC', 'eps'), ('iA', 'fC', 'eps')],
}


class Adapter(object):
    NAME = 'C20'
    CHUNK = 4          # runs per dispatched chunk: short, so that the soft deadline is honoured closely
    traces = None
    RULE = ('Each evaluation is one simulated run: 1-4 caller clients (pipeline / z-method / primitives programs over the '
            'public API) sharing a pool of argument objects, executed (a) each alone in a forked pristine process on fresh '
            'C-contiguous float64 copies and (b) interleaved by a seeded scheduler in one process with shared objects, drawn '
            'buffer layouts, poisoned np.empty, duplicate deliveries and the purity monitor on every public function. '
            'Everything is drawn from one PRNG seeded by sha256(C20|VERIF_SEED|i). Distinct = distinct sha256 of the plan. '
            'Non-trivial = at least 2 clients sharing at least one pool object, at least one non-C layout or poisoned '
            'allocation actually performed, and at least one DUP executed.')
    STATE_MEASURE = 'distinct sha256 of the per-run sequence of (client, step, result digest) events = distinct interleavings with distinct outcomes'
    COMPONENTS = {
        'real': ['kneeliverse (from /repo/src working tree, all modules)', 'numpy', 'numba-compiled metrics', 'uts (dependency)'],
        'simulated': ['caller clients (programs over the public API)', 'scheduler (interleaving at call granularity)',
                      'np.empty / np.empty_like as seen from the package modules (poisoning proxy)',
                      'buffer delivery (layouts / dtype of argument arrays)', 'process boundary (fork per run and per isolated client)',
                      'purity monitor wrappers around every public function']}
    ASSUMPTIONS = [
        'sampling, not enumeration: a clean batch is evidence, not proof',
        'clauses (a) arguments unmodified, (b) identical results when called again / in another process history, (c) layout and dtype '
        'independence are decided only on the public functions and argument shapes the clients reach (see functions_reached)',
        'clause (d) (static linkage of every code path) is NOT decided by this technique; only witnesses on executed paths are reported',
        'results are compared by value (float64 bit patterns, all NaNs equal); result dtype is not compared',
        'both worlds run on the same machine with BLAS/numba pinned to one thread']

    def prepare(self, tier):
        """Fixed warm-up shared by check, digest and replay processes: imports, loop-budget
        instrumentation, JIT compilation of the numba metrics for the signatures clients use."""
        import kneeliverse  # noqa
        import kneeliverse.metrics as metrics
        budget.install()
        if Adapter.focus is None:
            from . import focus
            try:
                Adapter.focus = focus.compute()
            except Exception as e:
                Adapter.focus = {'changed': [], 'focus': [], 'error': str(e)[:200]}
        global FOCUS_FNS
        FOCUS_FNS = frozenset((Adapter.focus or {}).get('focus') or [])
        # public functions the catalogue has no entry for (added by the change under test): called by parameter name
        try:
            import inspect
            from . import focus as _focus
            base = _focus.load_baseline() or {}
            known_calls = set(base.get('reach', {})) | set(SOAK_TARGETS)
            extra = []
            for q in worlds.public_functions():
                if q in known_calls or q in ('rdp.plot_frame', 'evaluation.compute_global_segment_cost') or not base:
                    continue
                f = _pkg_attr(q)
                f = getattr(f, 'py_func', f)
                try:
                    params = [(n_, p_.default is not inspect.Parameter.empty,
                               '' if p_.annotation is inspect.Parameter.empty else str(getattr(p_.annotation, '__name__', p_.annotation)))
                              for n_, p_ in inspect.signature(f).parameters.items()
                              if p_.kind in (p_.POSITIONAL_ONLY, p_.POSITIONAL_OR_KEYWORD)]
                except (TypeError, ValueError):
                    continue
                extra.append((q, params))
            catalog.EXTRA_CALLS[:] = extra
            probe_ctx = catalog.Ctx(random.Random(0), [{'kind': 'curve', 'points': [[0, 0]] * 12}, {'kind': 'idx', 'curve': 0, 'values': [3, 5]},
                                                        {'kind': 'expected', 'curve': 0, 'points': [[0, 0]] * 2}])
            Adapter.extra_calls = [q for q, prm in extra if catalog.byname_args(probe_ctx, 0, prm) is not None]
            Adapter.extra_uncallable = [q for q, prm in extra if catalog.byname_args(probe_ctx, 0, prm) is None]
        except Exception as e:
            Adapter.extra_calls = ['error: %s' % str(e)[:100]]
        a = np.array([[0.0, 1.0], [1.0, 3.0], [2.0, 2.5], [3.0, 2.0]])
        ai = a.astype(np.int64)
        arr = {'fA': a[:, 1], 'fC': a[:, 1].copy(), 'iA': ai[:, 1], 'iC': ai[:, 1].copy()}
        for name, sigs in WARM.items():
            fn = getattr(metrics, name)
            for yk, hk, third in sigs:
                args = [arr[yk], arr[hk]]
                if third == 'eps':
                    args.append(1e-16)
                elif third == 'enum':
                    args.append(metrics.R2.classic)
                # compile only: the warm-up must not EXECUTE library code (state set by a first call — a latch, a
                # memo — would be inherited by every "pristine" process); a function that is not a numba dispatcher
                # is simply left alone and runs for the first time inside a run
                comp = getattr(fn, '_compile_for_args', None)
                if comp is None:
                    continue
                try:
                    # missing trailing arguments are passed the way the C dispatcher folds them: as OmittedArg(default)
                    import inspect
                    from numba.core.dispatcher import OmittedArg
                    params = list(inspect.signature(fn.py_func).parameters.values())
                    full = list(args) + [OmittedArg(p_.default) for p_ in params[len(args):]]
                    comp(*full)
                except Exception:
                    pass
        import gc
        gc.collect()
        gc.freeze()      # children are forked constantly: keep the collector from touching (and copying) inherited pages
        if tier == 'thorough':
            from . import c15
            ad = c15.Adapter()
            ad.load_traces()
            Adapter.traces = c15.Adapter.traces

    def prepare_replay(self):
        self.prepare('quick')

    def worker_init(self):
        pass

    focus = None        # {'changed': [...], 'focus': [...]} computed once per check from the working tree

    def make_plan(self, base, i, tier):
        from . import core
        rng = core.rng_for('C20', base, i)
        plan = gen_plan(rng, tier, Adapter.traces)
        fs = set((Adapter.focus or {}).get('focus') or [])
        if fs:
            # change-directed swarm: prefer plans that call into the code that differs from the baseline
            # (same PRNG stream, up to 6 redraws; 15 % of runs keep the undirected draw)
            tries = 0
            while tries < 6 and not _plan_calls(plan, fs) and rng.random() < 0.85:
                plan = gen_plan(rng, tier, Adapter.traces)
                tries += 1
            # ... and replay calls into the changed code in a pristine process (up to 12 per run)
            extra = 0
            for c, cl in enumerate(plan['clients']):
                for k, st in enumerate(cl['steps']):
                    if st['fn'] in fs and extra < 12 and k not in plan['iso'].get(str(c), []):
                        plan['iso'].setdefault(str(c), []).append(k)
                        extra += 1
            for v in plan['iso'].values():
                v.sort()
        return plan

    def execute(self, plan, stats=None):
        return execute(plan, stats, want_events=False)

    def execute_full(self, plan):
        return execute(plan, None, want_events=True)

    def execute_isolated(self, plan):
        return isolate.with_rundir(execute, (plan, None, True), timeout=200)

    def shrink(self, plan, violation, deadline):
        return shrink(plan, violation, deadline)

    def witness_plans(self):
        return witness_plans()

    def sample_view(self, plan):
        p = copy.deepcopy(plan)
        for o in p['pool']:
            if 'points' in o:
                o['points'] = [[unhex(x), unhex(y)] for x, y in o['points'][:8]] + (['...'] if len(o['points']) > 8 else [])
        for c in p['clients']:
            c['steps'] = c['steps'][:12] + (['...'] if len(c['steps']) > 12 else [])
        p['schedule'] = p['schedule'][:30] + (['...'] if len(p['schedule']) > 30 else [])
        return p

    def finding_key(self, violation, plan):
        return violation['key']

    def describe(self, plan):
        return describe(plan)

    def evidence_extra(self, agg):
        st = agg['stats']
        reached = sorted(k[3:] for k in st if k.startswith('fn.'))
        ok = {}
        for k, v in st.items():
            if k.startswith('r.'):
                _, kind, fn = k.split('.', 2)
                ok.setdefault(fn, {})[kind] = v
        return {'change_directed_focus': Adapter.focus,
                'public_functions_called_by_parameter_name': getattr(Adapter, 'extra_calls', []),
                'public_functions_never_called (no argument recipe)': getattr(Adapter, 'extra_uncallable', []),
                'functions_reached': {'count': len(reached), 'names': reached},
                'client_call_outcomes': {fn: ok[fn] for fn in sorted(ok)},
                'poisoned_allocations': {k[7:]: v for k, v in sorted(st.items()) if k.startswith('poison.')},
                'layouts_delivered': {k[7:]: v for k, v in sorted(st.items()) if k.startswith('layout.')}}
